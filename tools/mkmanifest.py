#!/usr/bin/env python3
"""Regenerates /verif/MANIFEST.json (kept in one place so that texts stay consistent)."""
import json, os
HERE = os.path.dirname(os.path.dirname(os.path.abspath(__file__)))

ENGINE_A = 'SimRT (vf/simrt.py): real code on real CPython threads, baton scheduler with sys.monitoring LINE yield points, virtual clock'
CHECKS = {
 'C01': ('exploration', 'A+B', 'sec 4 C01',
         'online/offline monitor over a totally ordered invocation/caller/life-cycle log: no two invocations of a key in progress on running loops, no invocation after a success, every value is the one successful result; executions sampled by seeded random / PCT / stall-sweep schedules at source-line granularity, timed delays and garbage collections injected at source lines, a directed take-over family, and free-running real threads (Engine B) with the overlap clause decided online',
         'runtime monitoring: event-log oracle over controlled-schedule executions (SimRT)'),
 'C02': ('exploration', 'A+B+C', 'sec 4 C02',
         'occupancy counter in a harness-owned critical section under line-level controlled schedules (threads x FileLock objects, kernel flock real), plus free-running processes x threads with an O_EXCL marker file as overlap detector',
         'runtime monitoring: occupancy / marker-file overlap detector under controlled schedules and process stress'),
 'C03': ('exploration', 'A+B', 'sec 4 C03',
         'set-algebra oracle (no loss, no phantom, retry keeps arguments, exactly-once for loop-thread submissions) over the log of a harness-owned function and producers; timed programs in virtual time, foreign threads interleaved at source lines with injected long preemptions, a loop that migrates between threads, asyncio debug mode as thread-affinity sanitizer, plus the same oracles under free-running real threads (Engine B)',
         'runtime monitoring: conservation / exactly-once oracle over recorded histories (SimRT)'),
 'C04': ('exploration', 'A', 'sec 4 C04',
         'per-caller expected outcome derived from the logged yields/raises of the harness-owned batch function (value, Exception, omitted, raise, yielded twice, unknown key, any result order) compared with what each caller received; completion by bounded virtual-time wait',
         'runtime monitoring: per-caller outcome oracle over recorded batch histories (virtual time)'),
 'C05': ('exploration', 'A', 'sec 4 C05',
         'termination by the scheduler\'s deadlock / step-bound detector and promptness as a bounded-progress rule in exact virtual time (no caller waits while nothing is computed unless a loop died within the 60 s safety window), with loop.stop() injected at swept yield points',
         'runtime monitoring: deadlock/livelock detector + virtual-time bounded-progress monitor, fault injection at yield points'),
 'C06': ('exploration', 'A+B', 'sec 4 C06',
         'classification of every caller outcome against the log (value of a successful invocation / exception of an invocation this caller performed / cancellation it was itself asked for), cache contents after failures, promptness under cancellation',
         'runtime monitoring: outcome-provenance oracle over recorded histories (SimRT)'),
 'C07': ('exploration', 'A+B', 'sec 4 C07',
         'barrier oracle at every wait() return, termination of every wait() and of loop shutdown (cancel all tasks) by the deadlock detector, classified by buffer state at shutdown',
         'runtime monitoring: barrier oracle + deadlock detector over timed programs (SimRT)'),
 'C08': ('exploration', 'A', 'sec 4 C08',
         'timing oracle O1-O4 in exact virtual time: calls never overlap, never empty, never earlier than `timeout` after an arrival, an idle burst is delivered whole at last arrival + timeout (exact ties not judged)',
         'runtime monitoring: virtual-time timing oracle over recorded invocations'),
 'C09': ('exploration', 'A', 'sec 4 C09',
         'C04\'s outcome oracle applied to every caller the harness did not cancel, with cancellations / timeouts at grid instants covering queued / running / after-result / after-batch, plus fresh calls afterwards and the loop exception handler as background-task-death monitor',
         'runtime monitoring: bystander-outcome oracle under injected cancellations (virtual time)'),
 'C10': ('exploration', 'A', 'sec 4 C10',
         'oracle over batch start/end and arrival logs: size in 1..limit, running batches <= limit, FIFO within and across batches, arrivals closer than batch_timeout share a batch unless full, hand-over no later than last joiner + batch_timeout once a slot is free',
         'runtime monitoring: ordering/limit/timing oracle over recorded batch histories (virtual time)'),
 'C11': ('exploration', 'A', 'sec 4 C11',
         'per-key window oracle: calls inside the pending/retention window are never batched again and receive the original outcome, calls after it are computed afresh and carry the new batch id, no batch carries a key twice',
         'runtime monitoring: retention-window oracle over recorded batch histories (virtual time)'),
 'C12': ('fault_enumeration', 'A', 'sec 4 C12',
         'executable Lock/RLock-over-one-file reference model compared after every operation (return value, exact elapsed virtual time, is_locked, /proc/self/fd census, final acquirability); operation sequences enumerated to a stated length, every model transition, OSError injected at every open/lock/unlock/close call index, plus residue probes after line-level interleaved concurrent use',
         'runtime monitoring: reference-model monitor with exhaustive short sequences and fault-index enumeration'),
 'C13': ('fault_enumeration', 'C', 'sec 4 C13',
         'child processes SIGKILLed at every source-line event of aiuti/filelock.py for ten usage scenarios; a fresh lock in the parent and in a new process must acquire at the first non-blocking attempt while the dead holder is still an unreaped zombie; live contenders (one blocking in the kernel, one polling) must keep excluding each other and keep progressing',
         'runtime monitoring: crash-point enumeration with process kill and post-crash probes'),
 'C14': ('exploration', 'D', 'sec 4 C14',
         'dictionary / LRU model of the key space compared call by call with the number and arguments of wrapped-function invocations and with the returned values; logging MutableMapping with scripted evictions',
         'runtime monitoring: sequential reference-model monitor'),
 'C15': ('exploration', 'A+D', 'sec 4 C15',
         'each decorator option measured through its behavioural effect in virtual time for the class / decorator / decorator-with-options forms, differential comparison of complete event logs between forms, and one decorated batcher driven from several loops successively and concurrently',
         'runtime monitoring: behavioural option probes + differential log comparison (SimRT)'),
 'C16': ('exploration', 'A+B', 'sec 4 C16',
         'consumer log compared with the scripted source (sequence by identity, terminal exception identity), ticker task for loop responsiveness in virtual time, helper-thread census at completion; producer/consumer interleaved at source lines',
         'runtime monitoring: sequence/exception/thread-census oracle under controlled schedules'),
 'C17': ('exploration', 'A+B', 'sec 4 C17',
         'caller outcome identity, loop identity observed from inside the awaitable, runner counter in the loop (never two threads), loop_in_thread / stop post-conditions read with the baton held, completion of every caller whose awaitable completed',
         'runtime monitoring: identity/affinity/runner-count oracle under controlled schedules'),
 'C18': ('exploration', 'D', 'sec 4 C18',
         'logging source and predicate, every consumption script; prefix, evaluate-once, pull-once and laziness checks after each next()',
         'runtime monitoring: sequential monitor with by-construction expectations'),
 'C19': ('exploration', 'D', 'sec 4 C19',
         'expected dictionaries known by construction from a fragment grammar, three input shapes compared, tripwire object and audit hook for the no-evaluation clause',
         'runtime monitoring: by-construction oracle + tripwire / audit-hook sanitizer'),
 'C20': ('exploration', 'A+D', 'sec 4 C20',
         'identity comparison of yielded/raised exceptions with the scripted instances in input order, completion log of every awaitable at the first yield / raise, every finishing-order permutation in virtual time',
         'runtime monitoring: completion-log and identity oracle over virtual-time executions'),
}
NOTE = ('held on the executions explored only (sampled schedules / inputs, enumerated where stated); trusted base: CPython 3.12 and stock asyncio, '
        'the sim primitives of vf/simrt.py (dual-tested against Engine B/C workloads), the harness-owned functions and the oracle code')

def main():
    checks = []
    for pid, (lvl, eng, ref, text, tech) in sorted(CHECKS.items()):
        checks.append({
            'property_id': pid,
            'quick_cmd': f'./check {pid} --tier quick',
            'thorough_cmd': f'./check {pid} --tier thorough',
            'evidence_file': f'evidence/{pid}.json',
            'replay_cmd_template': f'./check {pid} --replay {{path}}',
            'engine': eng,
            'level_claimed': {'category': lvl, 'text': text, 'design_ref': 'DESIGN.md ' + ref},
            'level_note': NOTE,
            'technique': tech,
        })
    m = {
        'version': 1,
        'setup_cmd': './setup.sh',
        'hooks': {
            'guard': 'AIUTI_VERIF',
            'enable': 'no source hooks are needed: every observation point is harness-owned or reached from outside (sys.monitoring LINE events on aiuti code objects, identity-scan substitution of blocking primitives, event-loop policy); the guard name is reserved and unused',
            'baseline_off_cmd': 'cd /repo && /venv/bin/python -m pytest -ra -q -p no:cacheprovider --timeout=900 --continue-on-collection-errors',
            'source_commits': [],
            'add_only': True,
        },
        'engines': [
            {'name': 'A-SimRT', 'path': 'vf/simrt.py', 'kind_free_text': ENGINE_A,
             'serves_properties': ['C01', 'C02', 'C03', 'C04', 'C05', 'C06', 'C07', 'C08', 'C09', 'C10', 'C11', 'C12', 'C15', 'C16', 'C17', 'C20']},
            {'name': 'B-real-threads', 'path': 'vf/engine_b.py', 'kind_free_text': 'free-running real threads and event loops in real time with LINE-level sleep injection; the same harness code and safety oracles as Engine A, nothing of aiuti replaced (except the scaled 60 s safety constant)',
             'serves_properties': ['C01', 'C06', 'C03', 'C07', 'C16', 'C17']},
            {'name': 'B/C-processes', 'path': 'vf/props/flock_child.py', 'kind_free_text': 'free-running OS processes and threads with real flock, LINE-level sleep injection, O_EXCL marker overlap detector; SIGKILL at the n-th LINE event (vf/props/crash_child.py)',
             'serves_properties': ['C02', 'C13']},
            {'name': 'D-reference-models', 'path': 'vf/props', 'kind_free_text': 'sequential reference-model monitors with by-construction expectations',
             'serves_properties': ['C12', 'C14', 'C18', 'C19', 'C20']},
        ],
        'checks': checks,
        'not_applicable': [],
        'notes': 'exit 0 = held on everything explored; exit 1 + "VIOLATION property=<id> replay=<path>"; exit 2 + "INCONCLUSIVE ..." when monitors did not observe enough (never folded into either). VERIF_SEED / VERIF_TIER / VERIF_JOBS are honoured. Known findings: known_findings.json.',
    }
    with open(os.path.join(HERE, 'MANIFEST.json'), 'w') as f:
        json.dump(m, f, indent=1)
    print('wrote MANIFEST.json with', len(checks), 'checks')

main()
