"""Driver / worker plumbing, evidence, known findings, replay files.

A *check* (one per property) enumerates JSON-able *cases*; a case is executed
against the real code by ``run_case`` which returns what the monitors saw.
The driver shards cases over worker processes (plain subprocess children,
never multiprocessing.Pool), aggregates what they observed and decides the
three-valued verdict.
"""
from __future__ import annotations

import collections
import hashlib
import importlib
import json
import os
import shutil
import subprocess
import sys
import tempfile
import time

VERIF = os.path.dirname(os.path.dirname(os.path.abspath(__file__)))
REPO = os.environ.get('VERIF_REPO', '/repo')
PY = '/venv/bin/python'

U = 1.0 / 1024           # time grid unit
EPS = 2.0 ** -20

REGISTRY = {
    'C01': 'vf.props.cache', 'C05': 'vf.props.cache', 'C06': 'vf.props.cache',
    'C02': 'vf.props.flock', 'C12': 'vf.props.flock_model', 'C13': 'vf.props.crash',
    'C03': 'vf.props.buffer', 'C07': 'vf.props.buffer', 'C08': 'vf.props.buffer',
    'C04': 'vf.props.batcher', 'C09': 'vf.props.batcher', 'C10': 'vf.props.batcher',
    'C11': 'vf.props.batcher', 'C15': 'vf.props.deco',
    'C14': 'vf.props.cachekeys', 'C16': 'vf.props.iters', 'C17': 'vf.props.ensure',
    'C18': 'vf.props.split', 'C19': 'vf.props.parsing', 'C20': 'vf.props.gather',
}


class HarnessError(Exception):
    """Raised by harness-owned functions; carries the id of who raised it."""


class HarnessSignal(BaseException):
    """The same, for failures that are BaseException but not Exception (a control-flow signal of the application's own)."""


def digest(obj) -> str:
    return hashlib.blake2b(json.dumps(obj, sort_keys=True, default=repr).encode(),
                           digest_size=6).hexdigest()


def jsonable(x, depth=0):
    if depth > 6:
        return repr(x)
    if isinstance(x, (str, int, bool)) or x is None:
        return x
    if isinstance(x, float):
        if x != x or x in (float('inf'), float('-inf')):
            return repr(x)
        # show grid times as multiples of U when exact
        return x
    if isinstance(x, (list, tuple)):
        return [jsonable(i, depth + 1) for i in x]
    if isinstance(x, (set, frozenset)):
        return sorted((jsonable(i, depth + 1) for i in x), key=repr)
    if isinstance(x, dict):
        return {str(k): jsonable(v, depth + 1) for k, v in x.items()}
    return repr(x)


class CaseResult:
    __slots__ = ('violations', 'stats', 'nontrivial', 'sig', 'sample', 'inconclusive',
                 'dirty', 'cov', 'switch_cov', 'tags')

    def __init__(self):
        self.violations = []      # list of dict(sig=str, what=str, detail=..)
        self.stats = collections.Counter()
        self.nontrivial = False
        self.sig = ''             # interleaving / behaviour signature
        self.sample = None        # JSON-able description of what happened
        self.inconclusive = None  # reason string
        self.dirty = False        # process must be restarted after this case
        self.cov = None           # {(qualname, line): n}
        self.switch_cov = None
        self.tags = None          # set of 'prefix:detail' strings; distinct ones are counted per prefix

    def violate(self, sig, what, **detail):
        self.violations.append({'sig': sig, 'what': what, 'detail': jsonable(detail)})


class Check:
    """Base class of a property check."""
    pid = ''
    level = 'exploration'
    rule = ''
    assumptions: list = []
    anchors: tuple = ()          # co_qualname prefixes whose line coverage is reported
    budget = {'quick': 40.0, 'thorough': 600.0}    # wall seconds per worker

    def setup(self):
        """Once per worker process."""

    def cases(self, tier, seed):
        raise NotImplementedError

    def run_case(self, case) -> CaseResult:
        raise NotImplementedError

    def floors(self, tier):
        """stats key -> minimum total for the run to be conclusive."""
        return {}

    def extra_evidence(self, tier, agg):
        return {}


def load_check(pid) -> Check:
    mod = importlib.import_module(REGISTRY[pid])
    return mod.get_check(pid)


# --------------------------------------------------------------------------
# known findings
# --------------------------------------------------------------------------

def load_findings():
    p = os.path.join(VERIF, 'known_findings.json')
    try:
        with open(p) as f:
            return json.load(f)
    except FileNotFoundError:
        return {'findings': []}


def known_signatures(pid):
    out = {}
    for f in load_findings().get('findings', []):
        if f.get('property') == pid and f.get('status') == 'known':
            out[f['signature']] = f
    return out


# --------------------------------------------------------------------------
# worker
# --------------------------------------------------------------------------

def worker_main(argv):
    pid, tier, seed, shard, nshards, start, outpath, deadline = argv
    seed, shard, nshards, start = int(seed), int(shard), int(nshards), int(start)
    deadline = float(deadline)
    import logging
    logging.disable(logging.CRITICAL)
    import warnings
    warnings.simplefilter('ignore')
    import faulthandler
    faulthandler.enable()
    check = load_check(pid)
    check.setup()
    stats = collections.Counter()
    digests = set()
    samples = []
    cov = collections.Counter()
    swcov = set()
    tags = set()
    n = 0
    truncated = 0
    resume = None
    t0 = time.time()
    out = open(outpath, 'a', buffering=1)
    nviol = 0
    idx = -1
    stop_file = os.path.join(os.path.dirname(outpath), 'stop')
    early = bool(os.environ.get('VERIF_STOP_ON_VIOLATION'))
    for idx, case in enumerate(check.cases(tier, seed)):
        if idx % nshards != shard or idx < start:
            continue
        if time.time() > deadline or (early and n % 16 == 0 and os.path.exists(stop_file)):
            truncated += 1
            continue
        try:
            r = check.run_case(case)
        except BaseException as e:     # noqa - a harness crash is never a verdict
            import traceback
            r = CaseResult()
            r.inconclusive = 'harness exception: ' + repr(e)
            r.sample = traceback.format_exc()[-2000:]
            r.dirty = True
        n += 1
        stats.update(r.stats)
        if r.inconclusive:
            stats['inconclusive'] += 1
            out.write(json.dumps({'t': 'inc', 'case': jsonable(case), 'reason': r.inconclusive,
                                  'sample': jsonable(r.sample)}) + '\n')
        if r.nontrivial and not r.inconclusive:
            digests.add(digest([jsonable(case), r.sig]))
            if len(samples) < 2 and r.sample is not None:
                samples.append({'case': jsonable(case), 'observed': jsonable(r.sample)})
        if r.cov:
            cov.update(r.cov)
        if r.switch_cov:
            swcov.update(r.switch_cov)
        if r.tags:
            tags.update(r.tags)
        if r.violations and early:
            open(stop_file, 'w').close()
        for v in r.violations:
            nviol += 1
            if nviol <= 40:
                out.write(json.dumps({'t': 'viol', 'case': jsonable(case), 'v': v,
                                      'observed': jsonable(r.sample)}) + '\n')
        if r.dirty:
            resume = idx + 1
            break
    final = {
        't': 'final', 'shard': shard, 'n': n, 'stats': dict(stats), 'digests': sorted(digests),
        'samples': samples, 'truncated': truncated, 'wall': time.time() - t0,
        'nviol': nviol, 'resume': resume, 'last_idx': idx,
        'cov': [[k[0], k[1], c] for k, c in cov.items()],
        'swcov': [[k[0], k[1]] for k in swcov],
        'tags': sorted(tags),
    }
    out.write(json.dumps(final) + '\n')
    out.close()
    # parked sim threads are daemons; do not wait for them
    sys.stdout.flush()
    os._exit(3 if resume is not None else 0)


# --------------------------------------------------------------------------
# driver
# --------------------------------------------------------------------------

def _worker_env():
    env = dict(os.environ)
    env['PYTHONHASHSEED'] = '0'
    env['PYTHONPATH'] = os.pathsep.join([REPO, VERIF] + ([os.path.join(VERIF, '.deps')]
                                         if os.path.isdir(os.path.join(VERIF, '.deps')) else []))
    env['PYTHONDONTWRITEBYTECODE'] = '1'
    env['VERIF_REPO'] = REPO
    return env


def ensure_deps():
    """icontract next to /venv's interpreter (idempotent, offline)."""
    deps = os.path.join(VERIF, '.deps')
    if os.path.isdir(os.path.join(deps, 'icontract')):
        return True
    try:
        subprocess.run([PY, '-m', 'pip', 'install', '-q', '--no-index', '--find-links',
                        '/opt/veriftools/wheels', '--target', deps, 'icontract'],
                       check=True, stdout=subprocess.DEVNULL, stderr=subprocess.DEVNULL,
                       timeout=120)
        return True
    except Exception:
        return False


def run_check(pid, tier, seed, jobs=None, verbose=True):
    t0 = time.time()
    check = load_check(pid)
    jobs = jobs or int(os.environ.get('VERIF_JOBS', os.cpu_count() or 4))
    budget = check.budget[tier] * float(os.environ.get('VERIF_BUDGET_SCALE') or 1)     # (scale: for re-checks on a loaded machine)
    tmp = tempfile.mkdtemp(prefix=f'verif-{pid}-')
    env = _worker_env()
    env['TMPDIR'] = tmp          # lock files, marker dirs etc. of the workers die with this directory
    deadline = t0 + budget
    records = []
    try:
        procs = {}
        starts = {i: 0 for i in range(jobs)}
        restarts = collections.Counter()

        def launch(i):
            outp = os.path.join(tmp, f'shard{i}.jsonl')
            cmd = [PY, '-m', 'vf.core', '--worker', pid, tier, str(seed), str(i), str(jobs),
                   str(starts[i]), outp, repr(deadline)]
            procs[i] = (subprocess.Popen(cmd, env=env, cwd=VERIF, stdout=subprocess.DEVNULL,
                                         stderr=open(os.path.join(tmp, f'err{i}.txt'), 'ab')), outp)

        for i in range(jobs):
            launch(i)
        hard = budget * 2.5 + 120
        failed_shards = []
        while procs:
            for i, (p, outp) in list(procs.items()):
                rc = p.poll()
                if rc is None:
                    if time.time() - t0 > hard:
                        p.kill()
                        failed_shards.append((i, 'driver watchdog'))
                        del procs[i]
                    continue
                del procs[i]
                final = None
                try:
                    with open(outp) as f:
                        lines = [json.loads(l) for l in f if l.strip()]
                    for rec in lines:
                        if rec['t'] == 'final':
                            final = rec
                except Exception:
                    lines = []
                if rc == 3 and final and final.get('resume') is not None and restarts[i] < 200:
                    restarts[i] += 1
                    starts[i] = final['resume']
                    os.rename(outp, outp + f'.{restarts[i]}')
                    records.extend(lines)
                    launch(i)
                elif rc == 0 and final:
                    records.extend(lines)
                else:
                    records.extend(lines)
                    err = ''
                    try:
                        err = open(os.path.join(tmp, f'err{i}.txt')).read()[-1500:]
                    except Exception:
                        pass
                    failed_shards.append((i, f'exit {rc}: {err}'))
            time.sleep(0.05)
        return _conclude(check, pid, tier, seed, records, failed_shards, t0, verbose,
                         sum(restarts.values()))
    finally:
        shutil.rmtree(tmp, ignore_errors=True)


def _conclude(check, pid, tier, seed, records, failed_shards, t0, verbose, restarts):
    stats = collections.Counter()
    digests = set()
    samples = []
    n = 0
    truncated = 0
    cov = collections.Counter()
    swcov = set()
    viols = []
    incs = []
    tags = set()
    for r in records:
        if r['t'] == 'final':
            stats.update(r['stats'])
            digests.update(r['digests'])
            if len(samples) < 3:
                samples.extend(r['samples'][:1])
            n += r['n']
            truncated += r['truncated']
            for q, l, c in r['cov']:
                cov[(q, l)] += c
            for q, l in r['swcov']:
                swcov.add((q, l))
            tags.update(r.get('tags', ()))
        elif r['t'] == 'viol':
            viols.append(r)
        elif r['t'] == 'inc':
            incs.append(r)
    known = known_signatures(pid)
    new_v = [v for v in viols if v['v']['sig'] not in known]
    known_v = [v for v in viols if v['v']['sig'] in known]
    floors = check.floors(tier)
    missing = {k: (stats.get(k, 0), m) for k, m in floors.items() if stats.get(k, 0) < m}
    # anchor coverage
    anchor_cov = {}
    for (q, l), c in cov.items():
        a = anchor_cov.setdefault(q, {'lines_executed': set(), 'lines_switched': set()})
        a['lines_executed'].add(l)
    for (q, l) in swcov:
        a = anchor_cov.setdefault(q, {'lines_executed': set(), 'lines_switched': set()})
        a['lines_switched'].add(l)
    anchor_cov = {q: {'lines_executed': len(a['lines_executed']),
                      'lines_with_context_switch': len(a['lines_switched'])}
                  for q, a in sorted(anchor_cov.items())
                  if not check.anchors or any(q.startswith(p) for p in check.anchors)}
    replay_paths = []
    rpdir = os.environ.get('VERIF_REPLAY_DIR') or os.path.join(VERIF, 'replays')
    if new_v:
        os.makedirs(rpdir, exist_ok=True)
        seen = set()
        for v in new_v:
            sig = v['v']['sig']
            if sig in seen:
                continue
            seen.add(sig)
            safe = ''.join(ch if ch.isalnum() or ch in '-_' else '_' for ch in sig)[:80]
            path = os.path.join(rpdir, f'{pid}-{safe}.json')
            with open(path, 'w') as f:
                json.dump({'property': pid, 'tier': tier, 'seed': seed, 'case': v['case'],
                           'violation': v['v'], 'observed': v.get('observed')}, f, indent=1)
            replay_paths.append((sig, path, v['v']['what']))
    wall = time.time() - t0
    inconclusive = []
    if failed_shards:
        inconclusive.append(f'{len(failed_shards)} worker shard(s) failed: {failed_shards[0][1][:300]}')
    if missing:
        inconclusive.append('floors not met: ' + ', '.join(f'{k}={a}<{m}' for k, (a, m) in missing.items()))
    if n == 0:
        inconclusive.append('no case ran')
    crashed = [i for i in incs if 'harness exception' in i['reason'] or 'thread error' in i['reason']]
    if len(crashed) > max(3, n // 2000):
        inconclusive.append(f'{len(crashed)} cases could not be judged because the harness/oracle failed on them: '
                            + crashed[0]['reason'][:200])
    coverage = {
        'evaluations': n,
        'distinct_nontrivial': len(digests),
        'rule': check.rule,
        'samples': samples if samples else [{'note': 'no non-trivial sample recorded'}],
        'monitor_counters': dict(sorted(stats.items())),
        'anchor_coverage': anchor_cov,
        'cases_skipped_by_time_budget': truncated,
        'worker_restarts': restarts,
        'inconclusive_cases': len(incs),
        'inconclusive_examples': [i['reason'] for i in incs[:3]],
        'floors': floors,
        'distinct_observed': dict(sorted(collections.Counter(t.split(':', 1)[0] for t in tags).items())),
        'known_finding_hits': dict(collections.Counter(v['v']['sig'] for v in known_v)),
        'new_violation_signatures': sorted({v['v']['sig'] for v in new_v}),
    }
    coverage.update(check.extra_evidence(tier, {'stats': stats, 'n': n}))
    ev = {
        'property_id': pid, 'tier': tier, 'seed': seed, 'level': check.level,
        'coverage': coverage,
        'assumptions': list(check.assumptions),
        'wall_s': round(wall, 2),
        'violations': len(new_v),
        'verdict': 'violated' if new_v else ('inconclusive' if inconclusive else 'held_on_observed'),
    }
    evdir = os.environ.get('VERIF_EVIDENCE_DIR')
    if not evdir:
        # evidence under /verif/evidence always describes /repo itself
        evdir = os.path.join(VERIF, 'evidence') if os.path.realpath(REPO) == '/repo' \
            else os.path.join(tempfile.gettempdir(), 'verif-evidence-other-tree')
    os.makedirs(evdir, exist_ok=True)
    with open(os.path.join(evdir, f'{pid}.json'), 'w') as f:
        json.dump(ev, f, indent=1, sort_keys=True)
    if verbose:
        print(f'{pid} tier={tier} seed={seed}: {n} cases, {len(digests)} distinct non-trivial, '
              f'{wall:.1f}s, counters: ' + ', '.join(f'{k}={v}' for k, v in sorted(stats.items())))
    for sig in sorted({v['v']['sig'] for v in known_v}):
        print(f'KNOWN-FINDING: property={pid} {known[sig].get("description", sig)} [{sig}]')
    if new_v:
        for sig, path, what in replay_paths:
            print(f'VIOLATION property={pid} replay={path}')
            print(f'  {sig}: {what}')
        return 1
    if inconclusive:
        print(f'INCONCLUSIVE property={pid} reason=' + '; '.join(inconclusive))
        return 2
    return 0


def replay(path):
    with open(path) as f:
        rec = json.load(f)
    pid = rec['property']
    import logging
    logging.disable(logging.CRITICAL)
    check = load_check(pid)
    check.setup()
    r = check.run_case(rec['case'])
    print(json.dumps({'case': rec['case'], 'observed': jsonable(r.sample),
                      'violations': r.violations, 'inconclusive': r.inconclusive}, indent=1))
    want = rec['violation']['sig']
    got = {v['sig'] for v in r.violations}
    if want in got:
        print(f'REPLAY reproduced {want}')
        print(f'VIOLATION property={pid} replay={path}')
        return 1
    print(f'REPLAY did not reproduce {want}; saw {sorted(got)}')
    return 2 if not got else 1


if __name__ == '__main__':
    if len(sys.argv) > 1 and sys.argv[1] == '--worker':
        worker_main(sys.argv[2:])
