"""C03 / C07 / C08 - buffer_until_timeout under SimRT (Engine A).

Timed programs of submissions (plain / awaitable / sync iterable / async
iterable, with producer delays and failures), wait() calls, foreign submitting
threads and loop shutdown; the wrapped function, every producer and every
caller are the harness's and log to one totally ordered history.
"""
from __future__ import annotations

import asyncio as aio
import collections
import random

from vf import simrt
from vf.core import Check, CaseResult, HarnessError, U, EPS


def gen(rng, flavour):
    """flavour: c03 | c07 | c08"""
    if flavour == 'c08':
        T = rng.choice([64 * U, 256 * U, 1024 * U])
    else:
        T = rng.choice([64 * U, 256 * U])
    m = T / 16
    gaps = [0, T / 4, T - m, T, T + m, 2 * T + T / 4, 5 * T]
    if flavour == 'c08':
        kinds = ['call', 'call', 'maplist', 'mapiter']
    elif flavour == 'c03':
        kinds = ['call', 'call', 'await', 'maplist', 'mapiter', 'amap', 'wait', 'waitnc']
    else:
        kinds = ['call', 'await', 'maplist', 'mapiter', 'amap', 'wait', 'wait', 'waitnc', 'waitnc']
    n = rng.randint(1, 8)
    t = 0.0
    acts = []
    nid = [0]

    def ids(k):
        r = list(range(nid[0], nid[0] + k))
        nid[0] += k
        if flavour != 'c08' and r and rng.random() < 0.08:
            # an element that happens to be an exception instance (the result of a gather(return_exceptions=True), say)
            r[rng.randrange(len(r))] = ('EXC', r[0])
        return r

    delta = rng.choice([0, 0, 0, U / 64, -U / 64])      # +-jitter explores both sides of exact ties
    for i in range(n):
        g = rng.choice(gaps)
        if g and delta and rng.random() < 0.3:
            g += delta
        t += g
        k = rng.choice(kinds)
        if k == 'call':
            acts.append({'t': t, 'k': k, 'ids': ids(1), 'd': 0, 'fail': None})
        elif k == 'await':
            fail = 0 if (flavour != 'c08' and rng.random() < 0.15) else None
            acts.append({'t': t, 'k': k, 'ids': ids(1), 'd': rng.choice([0, T / 4, 2 * T]), 'fail': fail})
        elif k in ('maplist', 'mapiter', 'amap'):
            mlen = rng.randint(0, 3)
            fail = None
            if k != 'maplist' and rng.random() < (0.3 if flavour != 'c08' else 0.2):
                fail = rng.randint(0, mlen)
            d = rng.choice([0, T / 4, T]) if k in ('amap', 'mapiter') and flavour != 'c08' else 0
            acts.append({'t': t, 'k': k, 'ids': ids(mlen), 'd': d, 'fail': fail})
            if k == 'maplist' and flavour != 'c08':
                acts[-1]['container'] = ('list', 'list', 'tuple', 'drain')[(mlen + i) % 4]
        else:
            acts.append({'t': t, 'k': k, 'ids': [], 'd': 0, 'fail': None})
    if rng.random() < 0.02:
        # several hundred to a thousand plain submissions at one instant
        acts.append({'t': rng.choice([0, t / 2, t]), 'k': 'burst',
                     'ids': [f'b{j}' for j in range(rng.choice([255, 257, 300, 513, 700, 1100]))], 'd': 0, 'fail': None})
        acts.sort(key=lambda a: a['t'])
    p_fail = {'c03': 0.25, 'c07': 0.2, 'c08': 0.1}[flavour]
    fails = sorted(i for i in range(6) if rng.random() < p_fail)
    foreign = []
    if flavour != 'c08' and rng.random() < 0.45:
        for fi in range(rng.choice([1, 1, 2])):
            fa = []
            ft = 0.0
            for _ in range(rng.randint(1, 3)):
                ft += rng.choice([0, 8 * U, T - m, T, T + m, 2 * T])
                fa.append({'t': ft, 'k': rng.choice(['call', 'call', 'mapiter', 'await', 'maplist']),
                           'ids': [f'F{fi}.{len(fa)}'], 'wfa': rng.choice([None, None, True, False])
                           if flavour == 'c03' else rng.choice([None, True, True, False])})
            foreign.append(fa)
    cfg = {'T': T, 'fdur': rng.choice([0, T / 4, 2 * T]), 'fails': fails, 'debug': bool(foreign) and rng.random() < 0.5,
           'deco': rng.random() < 0.3,
           # what a failing function / producer raises: an ordinary exception, or a CancelledError of its own
           # (e.g. an inner task somebody else cancelled) - a failure like any other for the buffer
           'fail_exc': rng.choice(['harness', 'harness', 'cancelled', 'timeout'])}
    shutdown = None
    if flavour == 'c07' and rng.random() < 0.45:
        horizon = (acts[-1]['t'] if acts else 0) + 2 * T
        shutdown = rng.choice([0, T / 4, T / 2, T - m, T, T + m, T + cfg['fdur'] / 2, horizon / 2, horizon])
        foreign = []         # a loop shut down under foreign waiters strands them by design
    migrate = None
    if flavour != 'c08' and shutdown is None and not foreign and rng.random() < 0.12:
        # the loop changes thread: created (and perhaps used) in one thread, then run by loop_in_thread's helper
        # while the first thread keeps submitting - the set-up the documentation of loop_in_thread suggests
        ph2 = []
        t2 = 0.0
        for j in range(rng.randint(1, 3)):
            t2 += rng.choice([0, 8 * U, T - m, T + m, 2 * T])
            ph2.append({'t': t2, 'k': rng.choice(['call', 'call', 'maplist', 'mapiter', 'await']), 'ids': [f'M{j}'],
                        'd': 0, 'fail': None, 'wfa': rng.choice([None, True, False])})
        migrate = {'phase1': rng.random() < 0.6, 'phase2': ph2}
    if migrate is not None and rng.random() < 0.4:
        cfg['debug'] = True
    if flavour in ('c03', 'c07') and shutdown is None and migrate is None and (cfg['fails'] + [9])[0] != 0:
        if (n + len(fails)) % 5 == 0:
            cfg['spawn'] = ((0, T / 4, 2 * T)[n % 3], bool(n % 2))
    rewrap = None
    if flavour == 'c03' and shutdown is None and migrate is None and not foreign and rng.random() < 0.2:
        rewrap = []
        cfg.pop('spawn', None)
        t2 = 0.0
        for j in range(rng.randint(1, 3)):
            t2 += rng.choice([0, 8 * U, T + m])
            rewrap.append({'t': t2, 'k': rng.choice(['call', 'call', 'maplist', 'await']), 'ids': [f'R{j}'], 'd': 0, 'fail': None})
    return {'cfg': cfg, 'acts': acts, 'foreign': foreign, 'shutdown': shutdown, 'migrate': migrate, 'rewrap': rewrap}


class Drain:
    """Iterable, not an Iterator: every __iter__ call hands out what is still in the inbox."""
    def __init__(self, items):
        import collections as _c
        self.inbox = _c.deque(items)

    def __iter__(self):
        while self.inbox:
            yield self.inbox.popleft()


class BufferHarness:
    def __init__(self, A, execute=None):
        self.A = A
        self.execute = execute or simrt.execute

    def run(self, prog, strategy, flavour, lines=True, delays=None, stop_at=None):
        A = self.A
        cfg = prog['cfg']
        T = cfg['T']
        box = {'ready': False, 'fdone': 0}
        nforeign = len(prog['foreign'])

        def main(s):
            log = s.log

            def emit(*ev):
                if not s.dead:
                    log.append(ev + (s.now,))

            ninv = [0]

            def make_exc(tag):
                fe = cfg.get('fail_exc')
                return aio.CancelledError(tag) if fe == 'cancelled' else TimeoutError(tag) if fe == 'timeout' else HarnessError(tag)

            excs = {}

            def real(x):
                """('EXC', n) stands for an exception instance used as an ordinary element"""
                if isinstance(x, tuple) and x and x[0] == 'EXC':
                    return excs.setdefault(x, ValueError('an element', x[1]))
                return x

            def unreal(x):
                for k_, v_ in excs.items():
                    if v_ is x:
                        return k_
                return x

            async def func(args):
                ninv[0] += 1
                n = ninv[0]
                emit('fstart', n, frozenset(unreal(a) for a in args))
                if cfg.get('spawn') and n == 1 and not box.get('shutting_down'):
                    # the wrapped function starts follow-up work of its own (a task that outlives this invocation) which later
                    # submits to the same buffer and waits for it, like any other user of the buffer
                    async def follow_up(delay=cfg['spawn'][0], cancel=cfg['spawn'][1]):
                        await aio.sleep(delay)
                        emit('sub', 'S0', 'call', 'L', ('sp0',))
                        box['buf']('sp0')
                        emit('wcall', 'S0', 'wait' if cancel else 'waitnc', 'L')
                        await box['buf'].wait(cancel=cancel)
                        emit('wret', 'S0', 'L')
                    box.setdefault('spawned', []).append(aio.ensure_future(follow_up()))
                try:
                    if box.get('shutting_down'):
                        # an invocation begun once the loop is being shut down waits for something that will not
                        # arrive any more (a reply over a connection already closed, say); only cancellation ends it
                        emit('fhang', n)
                        await aio.get_running_loop().create_future()
                    if cfg['fdur']:
                        await aio.sleep(cfg['fdur'])
                    if (n - 1) in cfg['fails']:
                        emit('fend', n, 'raise')
                        raise make_exc(n)
                except HarnessError:
                    raise
                except BaseException:
                    if not any(e[0] == 'fend' and e[1] == n for e in log[-3:]):
                        emit('fend', n, 'cancel')
                    raise
                emit('fend', n, 'ok')

            def submit(buf, who, sid, a, loop_name):
                k = a['k']
                ids_ = [real(x) for x in a['ids']]
                d = a.get('d', 0)
                fail = a.get('fail')
                if k == 'burst':
                    emit('sub', sid, k, who, tuple(a['ids']))
                    for x in ids_:
                        buf(x)
                elif k == 'call':
                    emit('sub', sid, k, who, tuple(a['ids']))
                    buf(ids_[0])
                elif k == 'await':
                    async def aw():
                        try:
                            if d:
                                await aio.sleep(d)
                            if fail is not None:
                                raise make_exc('producer')
                            emit('produced', sid, a['ids'][0])
                            return ids_[0]
                        finally:
                            emit('prod_end', sid)
                    emit('sub', sid, k, who, () if fail is not None else tuple(a['ids']))
                    buf.await_(aw())
                elif k == 'maplist':
                    emit('sub', sid, k, who, tuple(a['ids']))
                    cont = a.get('container', 'list')
                    # a collection: a list, a tuple, or an iterable that is not an iterator yet can be walked only once
                    # (its __iter__ drains a shared inbox)
                    buf.map(Drain(ids_) if cont == 'drain' else tuple(ids_) if cont == 'tuple' else list(ids_))
                elif k == 'mapiter':
                    def g():
                        try:
                            for j, x in enumerate(ids_):
                                if d:
                                    simrt.sim_sleep(d)          # blocks the helper thread, not the loop
                                if fail == j:
                                    raise make_exc('producer')
                                emit('produced', sid, unreal(x))
                                yield x
                            if fail == len(ids_):
                                raise make_exc('producer')
                        finally:
                            emit('prod_end', sid)
                    got = tuple(a['ids'][:fail]) if fail is not None else tuple(a['ids'])
                    emit('sub', sid, k, who, got)
                    buf.map(g())
                elif k == 'amap':
                    async def ag():
                        try:
                            for j, x in enumerate(ids_):
                                if d:
                                    await aio.sleep(d)
                                if fail == j:
                                    raise make_exc('producer')
                                emit('produced', sid, unreal(x))
                                yield x
                            if fail == len(ids_):
                                raise make_exc('producer')
                        finally:
                            emit('prod_end', sid)
                    got = tuple(a['ids'][:fail]) if fail is not None else tuple(a['ids'])
                    emit('sub', sid, k, who, got)
                    buf.amap(ag())

            def loop_thread():
                loop = aio.new_event_loop()
                aio.set_event_loop(loop)
                if cfg['debug']:
                    loop.set_debug(True)
                    loop.slow_callback_duration = 1e9
                loop.set_exception_handler(
                    lambda lp, ctx: emit('loop_exc', str(ctx.get('message'))[:120], repr(ctx.get('exception'))[:120]))
                before = set(aio.all_tasks(loop))
                if cfg['deco']:
                    buf = A.buffer_until_timeout(timeout=T)(func)
                else:
                    buf = A.buffer_until_timeout(func, timeout=T)
                box['buf'] = buf
                box['loop'] = loop
                box['bg'] = [t for t in aio.all_tasks(loop) if t not in before]

                async def act(i, a):
                    if a['t']:
                        await aio.sleep(a['t'])
                    if a['k'] in ('wait', 'waitnc'):
                        emit('wcall', f'L{i}', a['k'], 'L')
                        await buf.wait(cancel=(a['k'] == 'wait'))
                        emit('wret', f'L{i}', 'L')
                    else:
                        submit(buf, 'L', f'L{i}', a, 'L')

                async def main_coro():
                    box['ready'] = True          # foreign threads start only once this loop is running
                    await aio.gather(*(act(i, a) for i, a in enumerate(prog['acts'])))
                    for tk in box.get('spawned', []):
                        await tk
                    while box['fdone'] < nforeign:
                        await aio.sleep(T)
                    if flavour == 'c08':
                        await aio.sleep(16 * T + 8 * cfg['fdur'])
                    emit('wcall', 'final', 'wait', 'L')
                    await buf.wait()
                    emit('wret', 'final', 'L')
                    while any(not tk.done() for tk in box.get('spawned', [])):
                        # (the function's own follow-up work may only have been started by that last flush)
                        for tk in box['spawned']:
                            await tk
                        emit('wcall', 'final+', 'wait', 'L')
                        await buf.wait()
                        emit('wret', 'final+', 'L')

                if prog['shutdown'] is None:
                    try:
                        loop.run_until_complete(main_coro())
                        emit('quiesced')
                    except RuntimeError as e:
                        if stop_at is None or 'stopped before' not in str(e):
                            raise
                        emit('stopped_at_yield_point', stop_at)
                    # an orderly end: Runner-style shutdown of the idle buffer must terminate too
                    if prog.get('rewrap') and stop_at is None:
                        # a second phase of the program on a loop of its own: the SAME function is wrapped again with the
                        # same timeout while the first wrapper's loop stays open but idle
                        loop2 = aio.new_event_loop()
                        aio.set_event_loop(loop2)
                        emit('phase2_loop', loop2.sim_name if hasattr(loop2, 'sim_name') else 'L2')
                        buf2 = A.buffer_until_timeout(timeout=T)(func) if cfg['deco'] else A.buffer_until_timeout(func, timeout=T)

                        async def main2():
                            async def act2(i, a):
                                if a['t']:
                                    await aio.sleep(a['t'])
                                submit(buf2, 'L', f'R{i}', a, 'L')
                            try:
                                await aio.gather(*(act2(i, a) for i, a in enumerate(prog['rewrap'])))
                                emit('wcall', 'final2', 'wait', 'L')
                                await buf2.wait()
                                emit('wret', 'final2', 'L')
                            except RuntimeError as e:
                                emit('api_error', 'phase2', repr(e)[:200])
                        loop2.run_until_complete(main2())
                        ts2 = aio.all_tasks(loop2)
                        for t in ts2:
                            t.cancel()
                        if ts2:
                            loop2.run_until_complete(aio.gather(*ts2, return_exceptions=True))
                        loop2.close()
                        aio.set_event_loop(loop)
                else:
                    mt = loop.create_task(main_coro())
                    loop.call_later(prog['shutdown'], loop.stop)
                    loop.run_forever()
                    if mt.done():
                        emit('quiesced')
                box['shutting_down'] = True
                ts = aio.all_tasks(loop)
                emit('shutdown', len(ts))
                for t in ts:
                    t.cancel()
                if ts:
                    g = aio.gather(*ts, return_exceptions=True)
                    for _ in range(3):
                        try:
                            loop.run_until_complete(g)
                            break
                        except RuntimeError as e:
                            # a stop() injected just before the shutdown began takes effect in its first iteration
                            if stop_at is None or 'stopped before' not in str(e):
                                raise
                emit('shutdown_done', all(t.done() for t in box['bg']))
                loop.close()

            def foreign_thread(fi, fa):
                def body():
                    while not box['ready']:
                        s.sleep(U / 4)
                    buf = box['buf']
                    loop = aio.new_event_loop()
                    who = f'F{fi}'

                    async def main_coro():
                        for j, a in enumerate(fa):
                            if a['t']:
                                await aio.sleep(a['t'])
                            try:
                                submit(buf, who, f'{who}.{j}', a, who)
                            except RuntimeError as e:
                                emit('sanitizer', who, repr(e)[:200])
                                return
                            if a['wfa'] is not None:
                                emit('wcall', f'{who}.{j}', 'wait' if a['wfa'] else 'waitnc', who)
                                await buf.wait_from_anywhere(cancel=a['wfa'])
                                emit('wret', f'{who}.{j}', who)
                    try:
                        loop.run_until_complete(main_coro())
                    finally:
                        box['fdone'] += 1
                    loop.close()
                return body

            def migrating_thread():
                mg = prog['migrate']
                loop = aio.new_event_loop()
                aio.set_event_loop(loop)
                if cfg['debug']:
                    loop.set_debug(True)
                    loop.slow_callback_duration = 1e9
                buf = A.buffer_until_timeout(func, timeout=T)
                box['buf'] = buf
                box['loop'] = loop
                if mg['phase1']:
                    async def act(i, a):
                        if a['t']:
                            await aio.sleep(a['t'])
                        if a['k'] in ('wait', 'waitnc'):
                            emit('wcall', f'L{i}', a['k'], 'L')
                            await buf.wait(cancel=(a['k'] == 'wait'))
                            emit('wret', f'L{i}', 'L')
                        else:
                            submit(buf, 'L', f'L{i}', a, 'L')

                    async def phase1():
                        await aio.gather(*(act(i, a) for i, a in enumerate(prog['acts'])))
                        emit('wcall', 'p1', 'wait', 'L')
                        await buf.wait()
                        emit('wret', 'p1', 'L')
                    loop.run_until_complete(phase1())
                stop = A.loop_in_thread(loop)
                emit('migrated')
                own = aio.new_event_loop()
                try:
                    for j, a in enumerate(mg['phase2']):
                        if a['t']:
                            s.sleep(a['t'])
                        try:
                            submit(buf, 'M', f'M.{j}', a, 'M')
                        except RuntimeError as e:
                            emit('sanitizer', 'M', repr(e)[:200])
                            break
                        if a['wfa'] is not None:
                            emit('wcall', f'M.{j}', 'wait' if a['wfa'] else 'waitnc', 'M')
                            own.run_until_complete(buf.wait_from_anywhere(cancel=a['wfa']))
                            emit('wret', f'M.{j}', 'M')
                    emit('wcall', 'final', 'wait', 'M')
                    own.run_until_complete(buf.wait_from_anywhere())
                    emit('wret', 'final', 'M')
                    emit('quiesced')
                finally:
                    own.close()
                stop()

            if prog.get('migrate'):
                s.spawn(migrating_thread, 'L')
                return
            s.spawn(loop_thread, 'L')
            for fi, fa in enumerate(prog['foreign']):
                s.spawn(foreign_thread(fi, fa), f'F{fi}')

        def pre(s):
            if delays and hasattr(s, 'line_delays'):
                s.line_delays = [dict(d) for d in delays]
            if stop_at is not None:
                def stopper():
                    lp = box.get('loop')
                    if lp is not None and lp.is_running() and not box.get('shutting_down'):
                        s.log.append(('inject_stop', stop_at, s.now))
                        lp.stop()
                s.at('L', stop_at, stopper)

        return self.execute(main, strategy, max_steps=120000, lines=lines, watchdog=60.0, pre=pre)


# ---------------------------------------------------------------------------
# oracles
# ---------------------------------------------------------------------------

class BView:
    def __init__(self, log):
        self.log = log
        self.subs = [(i, e) for i, e in enumerate(log) if e[0] == 'sub']
        self.fs = [(i, e) for i, e in enumerate(log) if e[0] == 'fstart']
        self.fe = {e[1]: (i, e) for i, e in enumerate(log) if e[0] == 'fend'}
        self.ok = [(i, e) for i, e in self.fs if e[1] in self.fe and self.fe[e[1]][1][2] == 'ok']
        self.quiesced = any(e[0] == 'quiesced' for e in log)
        self.shutdown_at = next((i for i, e in enumerate(log) if e[0] == 'shutdown'), None)


def judge_c03(v: BView, res: CaseResult, verdict):
    st = res.stats
    produced = set(x for _, e in v.subs for x in e[4])
    everything = produced
    delivered = collections.Counter(x for _, e in v.ok for x in e[2])
    for e in v.log:
        if e[0] == 'sanitizer':
            res.violate('C03:thread-affinity', 'asyncio debug mode: non-thread-safe loop call from a foreign thread',
                        what_=e[2])
        elif e[0] == 'api_error':
            res.violate('C03:wrapper-unusable', 'submitting to / waiting on a freshly made wrapper raised', what_=e[2])
    for _, e in v.fs:
        ph = set(e[2]) - everything
        if ph:
            res.violate('C03:phantom-argument', 'function received an argument nobody submitted', args=sorted(map(repr, ph)))
    for (ia, a), (ib, b) in zip(v.fs, v.fs[1:]):
        fa = v.fe.get(a[1])
        if fa and fa[1][2] == 'raise':
            st['failed_call_followed_by_retry'] += 1
            if not a[2] <= b[2]:
                res.violate('C03:retry-dropped', 'arguments of a failed call were not all offered to the next call',
                            failed=sorted(map(repr, a[2])), next=sorted(map(repr, b[2])))
    if verdict == 'deadlock':
        # every thread is blocked and no timer is pending: nothing can deliver what is still missing
        lost = produced - set(delivered)
        if lost:
            res.violate('C03:lost-forever', 'execution came to a permanent standstill with submitted arguments undelivered',
                        lost=sorted(map(repr, lost)))
    if v.quiesced and verdict is None:
        lost = produced - set(delivered)
        if lost:
            res.violate('C03:lost', 'submitted argument never reached a successful call',
                        lost=sorted(map(repr, lost)))
        own = {x for _, e in v.subs if e[3] == 'L' for x in e[4]}
        multi = {x: c for x, c in delivered.items() if c != 1 and x in own}
        if multi:
            res.violate('C03:delivered-twice', 'loop-thread argument reached more than one successful call',
                        multi={repr(k): c for k, c in multi.items()})
        st['elements_delivered'] += len(delivered)
    # non-trivial ingredients
    if any(e[3] != 'L' for _, e in v.subs):
        st['foreign_submission'] += 1
    for i, e in v.subs:
        if any(a < i < v.fe.get(f[1], (10 ** 9,))[0] for a, f in v.fs):
            st['submission_while_running'] += 1
            break
    if any(e[2] in ('mapiter', 'amap') and 0 < len(e[4]) for _, e in v.subs
           if any(x[0] == 'sub' for x in [e])) and False:
        pass


def judge_c07(v: BView, res: CaseResult, r, prog):
    st = res.stats
    log = v.log
    okpos = [(v.fe[e[1]][0], e[2]) for _, e in v.ok]
    wcalls = {}
    for i, e in enumerate(log):
        if e[0] == 'wcall':
            wcalls[e[1]] = (i, e)
        elif e[0] == 'wret':
            wc_i, wc = wcalls[e[1]]
            who = wc[3]
            before = set()
            for si, se in v.subs:
                if si < wc_i and (se[3] == who or se[3] == 'L'):
                    before.update(se[4])
            done = set()
            for pos, args in okpos:
                if pos < i:
                    done.update(args)
            st['waits_returned'] += 1
            pending_at_call = before - set(x for pos, args in okpos if pos < wc_i for x in args)
            if pending_at_call:
                st['waits_issued_with_undelivered'] += 1
                state = _state_at(v, wc_i)
                st[f'wait_in_state_{state}'] += 1
            if before - done:
                res.violate('C07:barrier', 'wait() returned before everything submitted earlier was delivered',
                            waiter=e[1], missing=sorted(map(repr, before - done)))
    # every wait returns
    if r.verdict in ('deadlock', 'stepbound', 'timebound'):
        if v.shutdown_at is None:
            open_w = [w for w in wcalls if not any(e[0] == 'wret' and e[1] == w for e in log)]
            res.violate('C07:wait-never-returns', f'{r.verdict} with wait() pending', waits=open_w, blocked=r.blocked)
        else:
            state = _state_at(v, v.shutdown_at)
            res.violate(f'C07:shutdown-hangs:{state}',
                        f'cancelling every task of the loop (as loop shutdown does) never finished; buffer state: {state}',
                        blocked=r.blocked)
    elif v.shutdown_at is not None:
        state = _state_at(v, v.shutdown_at)
        st[f'shutdown_in_state_{state}'] += 1
        sd = [e for e in log if e[0] == 'shutdown_done']
        if sd and not sd[0][1]:
            res.violate(f'C07:bg-task-survives:{state}', 'background task not done after shutdown')


def _state_at(v: BView, pos):
    """Buffer state at log position pos: running / collecting / armed / idle."""
    for i, e in v.fs:
        if i < pos and (e[1] not in v.fe or v.fe[e[1]][0] > pos):
            return 'running'
    # producers submitted but still producing
    ended = {e[1] for e in v.log[:pos] if e[0] == 'prod_end'}
    for i, e in v.subs:
        if i < pos and e[2] in ('await', 'amap', 'mapiter') and e[1] not in ended:
            return 'collecting'
    delivered = set()
    for i, e in v.ok:
        if v.fe[e[1]][0] < pos:
            delivered.update(e[2])
    submitted_any = False
    for i, e in v.subs:
        if i < pos:
            if set(e[4]) - delivered:
                return 'armed'
            submitted_any = True
    # a failed call awaiting its retry also leaves the timer armed
    last = [e for i, e in v.fs if i < pos]
    if last and v.fe.get(last[-1][1], (0, (0, 0, 'ok')))[1][2] == 'raise':
        return 'armed'
    # empty submissions since the last call arm the timer as well
    # (a submission at the very instant the last call started counts as after it)
    last_start = max([e[3] for i, e in v.fs if i < pos], default=-1.0)
    if any(i < pos and e[-1] >= last_start - EPS for i, e in v.subs):
        return 'armed_empty'
    return 'idle'


def judge_c08_always(v: BView, res: CaseResult):
    """The two clauses of C08 that hold for every history, whoever submits: never running twice at once, never empty."""
    open_ = None
    for e in v.log:
        if e[0] == 'fstart':
            if open_ is not None:
                res.violate('C08:overlap', 'function invoked while the previous invocation was still running')
            open_ = e[1]
            if not e[2]:
                res.violate('C08:empty-call', 'function called with an empty set')
        elif e[0] == 'fend' and e[1] == open_:
            open_ = None
    res.stats['invocations_judged_O1_O2'] += len(v.fs)


def judge_c08(v: BView, res: CaseResult, prog, complete=True):
    st = res.stats
    T = prog['cfg']['T']
    m = T / 64          # judging margin; the generator's 'just below / just above' offsets are T/16
    eps = EPS
    fs = [e for _, e in v.fs]
    fe = {k: e for k, (_, e) in v.fe.items()}
    for a, b in zip(fs, fs[1:]):
        if a[1] in fe and b[3] < fe[a[1]][3] - eps:
            res.violate('C08:overlap', 'function invoked while the previous invocation was still running')
    # overlap in log order (an invocation starting before the previous one logged its end)
    open_ = None
    for e in v.log:
        if e[0] == 'fstart':
            if open_ is not None:
                res.violate('C08:overlap', 'function invoked while the previous invocation was still running')
            open_ = e[1]
        elif e[0] == 'fend' and e[1] == open_:
            open_ = None
    for e in fs:
        if not e[2]:
            res.violate('C08:empty-call', 'function called with an empty set')
    forced = [e[-1] for e in v.log if e[0] == 'wcall' and e[2] == 'wait']
    first_forced = min(forced) if forced else float('inf')
    arr = [(e[-1], e[4]) for _, e in v.subs]
    for e in fs:
        s0 = e[3]
        if s0 >= first_forced - eps:
            continue
        st['invocations_judged_O3'] += 1
        for a, ids in arr:
            if a < s0 - m and abs((s0 - a) - T) > m and s0 - a < T - eps:
                res.violate('C08:early-call', 'function started less than `timeout` after an arrival',
                            start=s0, arrival=a, timeout=T)
                break
    if not complete:
        # the execution did not run to its end (C07's subject): the clauses above are safety clauses and hold for
        # any prefix; 'one call per burst with everything' needs the complete history
        st['prefix_only_judged_O1_O3'] += 1
        return
    busy = [(e[3], fe[e[1]][3] if e[1] in fe else float('inf')) for e in fs]

    def idle(t):
        for a, b in busy:
            if a - eps <= t <= b + eps:
                return False
        prev = [e for e in fs if e[1] in fe and fe[e[1]][3] < t]
        return (not prev) or fe[prev[-1][1]][2] == 'ok'

    runs = []
    cur = []
    amb = set()
    for a, ids in arr:
        if cur and a - cur[-1][0] < T - m:
            cur.append((a, ids))
        else:
            if cur:
                if abs((a - cur[-1][0]) - T) <= m:
                    amb.add(len(runs))
                    amb.add(len(runs) + 1)
                runs.append(cur)
            cur = [(a, ids)]
    if cur:
        runs.append(cur)
    for ri, run in enumerate(runs):
        if ri in amb:
            st['bursts_skipped_tie'] += 1
            continue
        if not all(idle(a) for a, _ in run):
            st['bursts_not_idle'] += 1
            continue
        last = run[-1][0]
        if last + T >= first_forced - m:
            continue
        allids = set(x for _, ids in run for x in ids)
        holders = [e for e in fs if allids & e[2]]
        if not allids:
            # a burst that produced nothing must cause no invocation of its own
            st['empty_bursts'] += 1
            mine = [e for e in fs if abs(e[3] - (last + T)) <= eps]
            if mine and idle(last + T - 2 * eps) and not any(set(e[2]) for e in mine):
                res.violate('C08:empty-call', 'burst of empty submissions caused a call')
            continue
        st['bursts_judged_O4'] += 1
        if len(run) >= 2:
            st['multi_arrival_bursts_judged'] += 1
        if not holders or not allids <= holders[0][2] or abs(holders[0][3] - (last + T)) > eps:
            res.violate('C08:burst-split-or-mistimed',
                        'an idle burst was not delivered together in one call starting `timeout` after its last arrival',
                        burst=[(a / U, list(i)) for a, i in run], timeout=T / U,
                        holders=[(h[1], h[3] / U, sorted(h[2])) for h in holders])
    if any(not idle(a) for a, _ in arr):
        st['arrival_during_run_or_retry'] += 1


# ---------------------------------------------------------------------------

class BufferCheck(Check):
    anchors = ('BufferAsyncCalls', 'to_async_iter', 'buffer_until_timeout', '_obj_to_aiter',
               '_awaitable_to_aiter', 'ensure_aw', 'run_aw_threadsafe')
    budget = {'quick': 45.0, 'thorough': 700.0}
    assumptions = [
        'Engine A (SimRT): virtual time, line-level interleaving of foreign threads with the loop thread; '
        'coroutines of one loop interleave only at their own suspension points',
        'the helper thread of map(iterator) is a registered sim thread (ThreadPoolExecutor replaced by SimExecutor)',
        'scripted function failures stop after the sixth invocation, so wait() can eventually succeed',
        'Python 3.12',
    ]
    SIZES = {'quick': 42000, 'thorough': 900000}

    def __init__(self, pid):
        self.pid = pid
        self.flavour = {'C03': 'c03', 'C07': 'c07', 'C08': 'c08'}[pid]

    def setup(self):
        import aiuti.asyncio as A
        simrt.prepare([A])
        self.h = BufferHarness(A)

    REAL = {'quick': 16, 'thorough': 320}

    def cases(self, tier, seed):
        n = self.SIZES[tier]
        nreal = self.REAL[tier] if self.pid in ('C03', 'C07') else 0
        every = max(1, n // max(1, nreal)) if nreal else 0
        if self.pid in ('C03', 'C08'):
            # a wrapper nobody keeps a reference to after the last submission (used before or not, collector run or not)
            for k in range(16):
                yield {'oneshot': k}
        n12 = (6000 if tier == 'quick' else 120000) if self.pid == 'C08' else 0
        k12 = 0
        if self.pid == 'C07':
            # loop.stop() at EVERY yield point of the loop thread for four short programs, then shutdown
            for which in range(4):
                for k in range(1, 900):
                    yield {'prog': which, 'stop_at': k}
        for i in range(n):
            if nreal and i % every == 0 and i // every < nreal:
                yield {'real': True, 'seed': (seed << 32) + i}
            yield {'seed': (seed << 32) + i}
            if k12 < n12 and i % max(1, n // n12) == 0:
                # (C08) the never-twice-at-once / never-empty clauses under foreign submitting threads, interleaved with the
                # timed programs so that a time-truncated run covers both
                yield {'o12': True, 'seed': (seed << 32) + k12}
                k12 += 1
        while k12 < n12:
            yield {'o12': True, 'seed': (seed << 32) + k12}
            k12 += 1

    def mini_program(self, which):
        """short fixed programs for the complete shutdown sweep (every yield point of the loop thread)"""
        T = 64 * U
        base = {'cfg': {'T': T, 'fdur': [0, T / 4, T / 4, 0][which], 'fails': [[], [0], [], [0, 1]][which], 'debug': False,
                        'deco': False, 'fail_exc': 'harness'},
                'foreign': [], 'shutdown': None, 'migrate': None}
        acts = [
            [{'t': 0, 'k': 'call', 'ids': [0], 'd': 0, 'fail': None}, {'t': T / 2, 'k': 'maplist', 'ids': [1, 2], 'd': 0, 'fail': None},
             {'t': 3 * T, 'k': 'call', 'ids': [3], 'd': 0, 'fail': None}],
            [{'t': 0, 'k': 'await', 'ids': [0], 'd': T / 4, 'fail': None}, {'t': T / 4, 'k': 'amap', 'ids': [1, 2], 'd': T / 4, 'fail': None},
             {'t': T / 2, 'k': 'waitnc', 'ids': [], 'd': 0, 'fail': None}],
            [{'t': 0, 'k': 'mapiter', 'ids': [0, 1], 'd': T / 4, 'fail': 1}, {'t': T, 'k': 'wait', 'ids': [], 'd': 0, 'fail': None},
             {'t': T, 'k': 'call', 'ids': [2], 'd': 0, 'fail': None}],
            [{'t': 0, 'k': 'call', 'ids': [0], 'd': 0, 'fail': None}, {'t': 0, 'k': 'wait', 'ids': [], 'd': 0, 'fail': None},
             {'t': T / 4, 'k': 'amap', 'ids': [1], 'd': 2 * T, 'fail': None}],
        ][which]
        base['acts'] = acts
        return base

    def run_oneshot(self, case):
        import gc
        A = self.h.A
        k = case['oneshot']
        used, collect, deco, many = bool(k & 1), bool(k & 2), bool(k & 4), bool(k & 8)
        T = 16 * U

        def main(s):
            def body():
                loop = aio.new_event_loop()
                aio.set_event_loop(loop)

                async def func(args):
                    s.log.append(('fstart', sorted(args), s.now))

                async def m():
                    b = A.buffer_until_timeout(timeout=T)(func) if deco else A.buffer_until_timeout(func, timeout=T)
                    if used:
                        b(0)
                        await aio.sleep(3 * T)
                    if many:
                        b.map([1, 2, 3])
                    else:
                        b(1)
                    s.log.append(('last_submission', s.now))
                    del b                       # the caller keeps nothing: what was submitted must still be delivered
                    if collect:
                        gc.collect()
                        await aio.sleep(0)
                        gc.collect()
                    await aio.sleep(3 * T)
                    s.log.append(('end', s.now))
                loop.run_until_complete(m())
                for t in aio.all_tasks(loop):
                    t.cancel()
                loop.close()
            s.spawn(body, 'L')
        r = simrt.execute(main, simrt.Strategy('none'), lines=False, watchdog=30.0)
        res = CaseResult()
        st = res.stats
        st['executions'] += 1
        st['wrapper_dropped_after_last_submission'] += 1
        if r.verdict == 'watchdog' or not r.clean:
            res.dirty = True
        if r.verdict == 'watchdog' or r.thread_errors:
            res.inconclusive = f'{r.verdict} {r.thread_errors[:1]}'
            return res
        la = [e[1] for e in r.log if e[0] == 'last_submission']
        want = [1, 2, 3] if many else [1]
        late = [e for e in r.log if e[0] == 'fstart' and la and e[2] >= la[0] - EPS]
        got = sorted(x for e in late for x in e[1])
        if got != want or r.verdict is not None or len(late) != 1 or abs(late[0][2] - (la[0] + T)) > T / 64:
            res.violate(f'{self.pid}:dropped-wrapper' if self.pid == 'C03' else 'C08:burst-split-or-mistimed',
                        'what was submitted to a wrapper whose last reference the caller then dropped was not delivered (once, '
                        '`timeout` after the submission)', case=case, calls=late, submitted=want, verdict=r.verdict)
        res.nontrivial = True
        st['nontrivial'] += 1
        res.sig = f'oneshot:{k}'
        res.sample = {'oneshot': {'used_before': used, 'collector_run': collect, 'decorator_form': deco, 'map': many}, 'log': r.log[:8]}
        return res

    def run_case(self, case):
        if 'oneshot' in case:
            return self.run_oneshot(case)
        if case.get('real'):
            from vf import engine_b
            return engine_b.batch_case('buffer', self.flavour, case['seed'], 10, 'real_executions_with_foreign_threads')
        if 'stop_at' in case:
            rng = random.Random(case['stop_at'])
            prog = self.mini_program(case['prog'])
            strat = simrt.Strategy('none')
            r = self.h.run(prog, strat, self.flavour, stop_at=case['stop_at'])
            return self.judge(case, prog, strat, r)
        rng = random.Random(case['seed'])
        prog = gen(rng, self.flavour if not case.get('o12') else 'c03')
        if case.get('o12'):
            while not prog['foreign']:
                prog = gen(rng, 'c03')
            if rng.random() < 0.5:
                for fa in prog['foreign']:
                    fa[0]['t'] = 0.0          # the very first submissions of several threads at the same moment
        if prog['foreign']:
            k = rng.random()
            if k < 0.6:
                strat = simrt.Strategy('random', rng.choice([0.05, 0.2, 0.5]), seed=rng.randrange(1 << 30))
            elif k < 0.8:
                strat = simrt.Strategy('pct', d=3, span=rng.choice([300, 1000, 3000]), seed=rng.randrange(1 << 30))
            else:
                strat = simrt.Strategy('stall', p=0.1, thread=rng.choice(['L', 'F0']), k=rng.randrange(1, 600),
                                       seed=rng.randrange(1 << 30))
        else:
            strat = simrt.Strategy('random', 0.3, seed=rng.randrange(1 << 30))
        delays = None
        if prog['foreign'] and rng.random() < 0.4:
            # a long preemption of a foreign thread at one source line of the hand-off path (or of the loop
            # thread inside the processing round): timers on the other side can fire meanwhile
            T = prog['cfg']['T']
            if rng.random() < 0.75:
                delays = [{'thread': f'F{rng.randrange(len(prog["foreign"]))}',
                           'qual': rng.choice(['BufferAsyncCalls._put', 'BufferAsyncCalls._put', 'BufferAsyncCalls.',
                                               'ensure_aw', 'run_aw_threadsafe']),
                           'nth': rng.randint(1, 9), 'd': rng.choice([T / 2, T + T / 16, 2 * T, 4 * T])}]
            else:
                delays = [{'thread': 'L', 'qual': rng.choice(['BufferAsyncCalls._process_queue', 'BufferAsyncCalls._run_func',
                                                              'BufferAsyncCalls.wait']),
                           'nth': rng.randint(1, 40), 'd': rng.choice([T / 2, T + T / 16, 2 * T])}]
        r = self.h.run(prog, strat, self.flavour, delays=delays)
        return self.judge(case, prog, strat, r)

    def judge(self, case, prog, strat, r):
        res = CaseResult()
        res.sig = r.signature
        res.cov = {k: c for k, c in r.sched.line_cov.items() if k[0].startswith(self.anchors)}
        res.switch_cov = {k for k in r.sched.switch_lines if k[0].startswith(self.anchors)}
        if r.verdict == 'watchdog' or not r.clean:
            res.dirty = True
        if r.verdict == 'watchdog':
            res.inconclusive = 'wall-clock watchdog'
            return res
        if r.thread_errors:
            res.inconclusive = 'harness thread error: ' + repr(r.thread_errors[:2])
            res.sample = {'program': prog, 'log': r.log[-30:]}
            return res
        st = res.stats
        st['executions'] += 1
        if r.sched.delays_fired:
            st['long_delay_injected'] += 1
        if any(a['k'] == 'burst' and len(a['ids']) > 512 for a in prog.get('acts', ())):
            st['burst_of_more_than_512_submissions_at_one_instant'] += 1
        v = BView(r.log)
        st['loop_exception_handler_events'] += sum(1 for e in r.log if e[0] == 'loop_exc')
        if prog['cfg']['debug']:
            st['debug_mode_executions'] += 1
        if prog.get('migrate'):
            st['loop_migrated_to_another_thread'] += 1
        if prog.get('rewrap'):
            st['function_wrapped_again_on_a_second_loop'] += 1
        if any(e[0] == 'inject_stop' for e in r.log):
            st['shutdown_swept_at_yield_point'] += 1
        if self.pid == 'C03':
            judge_c03(v, res, r.verdict)
            if r.verdict in ('deadlock', 'stepbound', 'timebound'):
                st['nonterminating_left_to_C07'] += 1
            nsub = len(v.subs)
            prefix = any(e[2] in ('mapiter', 'amap') and a.get('fail') and len(e[4]) > 0
                         for (_, e), a in zip([x for x in v.subs if x[1][3] == 'L'],
                                              [a for a in prog['acts'] if a['k'] not in ('wait', 'waitnc')]))
            if prefix:
                st['failing_producer_with_prefix'] += 1
            res.nontrivial = nsub >= 2 and bool(st.get('failed_call_followed_by_retry') or
                                                st.get('submission_while_running') or
                                                st.get('foreign_submission') or prefix)
        elif self.pid == 'C07':
            judge_c07(v, res, r, prog)
            res.nontrivial = bool(st.get('waits_issued_with_undelivered')) or \
                any(k.startswith('shutdown_in_state_') and k != 'shutdown_in_state_idle' for k in st) or \
                any(vv['sig'].startswith('C07:shutdown') for vv in res.violations)
        elif case.get('o12'):
            judge_c08_always(v, res)
            st['foreign_thread_programs_judged_O1_O2'] += 1
            res.nontrivial = len(v.fs) >= 2
        else:
            # a dead-locked execution is final (nothing will ever happen again): what was not delivered never will be
            judge_c08(v, res, prog, complete=r.verdict in (None, 'deadlock'))
            if r.verdict is not None and not res.violations:
                res.inconclusive = f'{r.verdict} (termination is C07\'s subject)'
            res.nontrivial = bool(st.get('multi_arrival_bursts_judged') or st.get('arrival_during_run_or_retry'))
        if res.nontrivial:
            st['nontrivial'] += 1
        if res.violations or res.nontrivial:
            res.sample = {'program': prog, 'strategy': strat.describe(), 'verdict': r.verdict,
                          'log': r.log[:70], 'n_switches': r.switches}
        return res

    def floors(self, tier):
        q = tier == 'quick'
        k = 1 if q else 20
        if self.pid == 'C03':
            return {'burst_of_more_than_512_submissions_at_one_instant': 20 * k, 'nontrivial': 3000 * k, 'failed_call_followed_by_retry': 1000 * k,
                    'submission_while_running': 1000 * k, 'foreign_submission': 1000 * k,
                    'failing_producer_with_prefix': 300 * k}
        if self.pid == 'C07':
            f = {'waits_issued_with_undelivered': 2000 * k, 'burst_of_more_than_512_submissions_at_one_instant': 20 * k}
            for s_ in ('running', 'collecting', 'armed'):
                f[f'wait_in_state_{s_}'] = 200 * k
            f['shutdown_in_state_idle'] = 100 * k
            return f
        return {'burst_of_more_than_512_submissions_at_one_instant': 20 * k, 'foreign_thread_programs_judged_O1_O2': 3000 * k, 'bursts_judged_O4': 5000 * k, 'multi_arrival_bursts_judged': 1500 * k,
                'arrival_during_run_or_retry': 1000 * k, 'invocations_judged_O3': 5000 * k}

    @property
    def rule(self):
        base = ('cases = seeded timed programs of <= 8 actions on the grid around `timeout` '
                '(call / await_ / map(list) / map(iterator) / amap with producer delays and failures, wait(cancel=True|False)), '
                'scripted failures of the first six function invocations (HarnessError / own CancelledError / TimeoutError), '
                'function durations {0, T/4, 2T}, arguments that are exception instances, collections given as list / tuple / a '
                'walk-once iterable, follow-up work started by the function itself that submits and waits; ')
        return base + {
            'C03': 'plus 0-2 foreign submitting threads under random/pct/stall schedules (asyncio debug mode in half of them); '
                   'non-trivial = >= 2 submissions and a retry after a failed call, a submission landing while the function runs, '
                   'a foreign-thread submission or a failing producer with a non-empty prefix; distinct = (program, baton moves)',
            'C07': 'plus foreign submit-then-wait_from_anywhere threads, or a loop shutdown (cancel all tasks, gather, close) at a grid instant '
                   'and, for four short programs, at every yield point of the loop thread; bursts of 255-1100 submissions at one instant; a function '
                   'invocation begun after the shutdown started only ends by cancellation; '
                   'non-trivial = a wait() issued while something was undelivered, or a shutdown in a non-idle buffer state',
            'C08': 'immediately available submissions only, no forced flush before the judged calls; failing producers; the safety '
                   'clauses are judged on unfinished executions too, never-twice-at-once / never-empty also on 6000 (quick) programs '
                   'with foreign submitting threads; '
                   'non-trivial = a multi-arrival idle burst was judged (O4) or an arrival landed during a run/retry (O1-O3)',
        }[self.pid]


def get_check(pid):
    return BufferCheck(pid)
