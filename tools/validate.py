#!/usr/bin/env python3
"""Applies each catalogued change to a scratch copy of /repo (outside /repo and /verif), runs the repository's own
suite on it (a change the suite rejects is not realistic and is dropped), then the quick check of the property it
breaks with VERIF_REPO pointing at the copy, and requires a VIOLATION.  Usage:
    tools/validate.py [--only id,id] [--prop C01] [--skip-suite] [--jobs N] [--out mutants/RESULTS.json]
"""
import argparse, json, os, shutil, subprocess, sys, tempfile, time

HERE = os.path.dirname(os.path.dirname(os.path.abspath(__file__)))
sys.path.insert(0, HERE)


def run_suite(root):
    try:
        p = subprocess.run(['/venv/bin/python', '-m', 'pytest', '-q', '-p', 'no:cacheprovider', '--timeout=60', '-x',
                            '--deselect', 'aiuti/asyncio.py::aiuti.asyncio.to_async_iter',
                            '--deselect', 'aiuti/asyncio.py::aiuti.asyncio.to_sync_iter'],
                           cwd=root, capture_output=True, text=True, timeout=400,
                           env=dict(os.environ, PYTHONPATH=root, PYTHONDONTWRITEBYTECODE='1'))
    except subprocess.TimeoutExpired:
        subprocess.run(['pkill', '-f', root])
        return False, 'suite hangs'
    tail = p.stdout.strip().splitlines()[-1] if p.stdout.strip() else ''
    return p.returncode == 0, tail


def apply(root, mut):
    path = os.path.join(root, mut['file'])
    s = open(path).read()
    for old, new in mut['repl']:
        if s.count(old) != 1:
            return f'pattern found {s.count(old)} times: {old[:60]!r}'
        s = s.replace(old, new)
    open(path, 'w').write(s)
    # must still compile
    p = subprocess.run(['/venv/bin/python', '-m', 'py_compile', path], capture_output=True, text=True)
    if p.returncode:
        return 'does not compile: ' + p.stderr[-200:]
    return None


def main():
    ap = argparse.ArgumentParser()
    ap.add_argument('--only')
    ap.add_argument('--prop')
    ap.add_argument('--skip-suite', action='store_true')
    ap.add_argument('--jobs', type=int)
    ap.add_argument('--out', default=os.path.join(HERE, 'mutants', 'RESULTS.json'))
    ap.add_argument('--seed', default='0')
    a = ap.parse_args()
    from mutants.catalogue import M
    muts = M
    if a.only:
        ids = set(a.only.split(','))
        muts = [m for m in muts if m['id'] in ids]
    if a.prop:
        muts = [m for m in muts if m['property'] == a.prop]
    try:
        results = json.load(open(a.out))
    except Exception:
        results = {}
    for mut in muts:
        root = tempfile.mkdtemp(prefix='aiuti-mut-')
        t0 = time.time()
        rec = {'property': mut['property'], 'what': mut['what']}
        try:
            shutil.copytree('/repo', root, dirs_exist_ok=True, ignore=shutil.ignore_patterns('.git', '__pycache__', '*.egg-info'))
            err = apply(root, mut)
            if err:
                rec['status'] = 'not-applicable: ' + err
            else:
                ok, tail = (True, 'skipped') if a.skip_suite else run_suite(root)
                rec['suite'] = tail
                if not ok:
                    rec['status'] = 'rejected-by-repo-suite'
                else:
                    rec['checks'] = {}
                    for pid in [mut['property']] + (mut['also'] if not a.only and False else []):
                        env = dict(os.environ, VERIF_REPO=root, VERIF_SEED=a.seed, VERIF_STOP_ON_VIOLATION='1',
                                   VERIF_EVIDENCE_DIR=os.path.join(root, '_evidence'),
                                   VERIF_REPLAY_DIR=os.path.join(root, '_replays'))
                        cmd = [os.path.join(HERE, 'check'), pid, '--tier', 'quick'] + (['--jobs', str(a.jobs)] if a.jobs else [])
                        p = subprocess.run(cmd, env=env, capture_output=True, text=True, timeout=900)
                        sigs = [l.strip() for l in p.stdout.splitlines() if l.startswith('  C')]
                        rec['checks'][pid] = {'rc': p.returncode, 'signatures': sigs[:6],
                                              'inconclusive': [l for l in p.stdout.splitlines() if l.startswith('INCONCLUSIVE')][:1]}
                    main_rc = rec['checks'][mut['property']]['rc']
                    rec['status'] = 'caught' if main_rc == 1 else ('MISSED (inconclusive)' if main_rc == 2 else 'MISSED')
        finally:
            shutil.rmtree(root, ignore_errors=True)
        rec['seconds'] = round(time.time() - t0, 1)
        results[mut['id']] = rec
        print(f"{mut['id']:36s} {rec['status']:28s} {rec.get('suite', '')[:40]:40s} "
              f"{'; '.join(rec.get('checks', {}).get(mut['property'], {}).get('signatures', []))[:120]}", flush=True)
        json.dump(results, open(a.out, 'w'), indent=1, sort_keys=True)
    caught = sum(1 for r in results.values() if r['status'] == 'caught')
    print(f'{caught} caught / {len(results)} recorded')


main()
