#!/bin/bash
# usage: tools/sq.sh <seeded dir> [--checks ...]   -> one summary line
python3 "$(dirname "$0")/seeded.py" "$@" 2>&1 | python3 -c "
import sys,json
t=sys.stdin.read()
try:
    d=json.loads(t); print(d['dir'].split('/')[-1], 'caught_by=',d['caught_by'], {k:(v[0],[s.split(':')[1] for s in v[1]][:3], v[2][:2]) for k,v in d['checks'].items()})
except Exception as e:
    print('??', t[-600:])"
