"""A garbage collection that happens while a thread is inside the cache's critical section finalises an abandoned
computation, whose finally-block needs the same (non-reentrant) lock: the caller dead-locks."""
import asyncio, gc, sys, threading
from collections.abc import MutableMapping
from aiuti.asyncio import threadsafe_async_cache

class M(MutableMapping):
    """a perfectly ordinary mapping; the collector happens to run during one of its look-ups"""
    def __init__(s): s.d = {}; s.collect_now = False
    def __getitem__(s, k):
        if s.collect_now:
            s.n = getattr(s, 'n', 0) + 1
            if s.n == 2:          # the second look-up of a call is the one made under the lock
                gc.collect()      # what any allocation inside the critical section may trigger
        return s.d[k]
    def __setitem__(s, k, v): s.d[k] = v
    def __delitem__(s, k): del s.d[k]
    def __iter__(s): return iter(s.d)
    def __len__(s): return len(s.d)

m = M()
@threadsafe_async_cache(cache=m)
async def f(x):
    await asyncio.sleep(0.2)
    return x

def abandon():
    loop = asyncio.new_event_loop()
    loop.create_task(f(1))
    loop.run_until_complete(asyncio.sleep(0.01))   # computation pending
    loop.close()                                   # closed without cancelling: tasks are garbage now
gc.disable()
abandon()
m.collect_now = True
out = []
t = threading.Thread(target=lambda: out.append(asyncio.run(f(1))), daemon=True)
t.start(); t.join(5)
print('result', out, 'alive', t.is_alive())
sys.exit(1 if t.is_alive() else 0)
