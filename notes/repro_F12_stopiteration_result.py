import asyncio, sys
sys.path.insert(0, "/repo")
from aiuti.asyncio import AsyncBackgroundBatcher
async def fn(batch):
    for k, a in batch:
        if a == 1:
            yield k, StopIteration('x')
        else:
            yield k, a
async def main():
    b = AsyncBackgroundBatcher(fn, batch_timeout=0.01)
    rs = await asyncio.wait_for(asyncio.gather(b(0), b(1), b(2), return_exceptions=True), 3)
    print(rs)
try:
    asyncio.run(main())
except Exception as e:
    print('FAILED', type(e), e)
