import asyncio, sys, threading, time
sys.path.insert(0, '/repo')
from aiuti.asyncio import ensure_aw, loop_in_thread
target = asyncio.new_event_loop()
res = {}
def caller():
    lp = asyncio.new_event_loop()
    async def body():
        await asyncio.sleep(0.5); return 'done'
    try:
        res['c0'] = lp.run_until_complete(ensure_aw(body(), target))
    except BaseException as e:
        res['c0'] = repr(e)
t = threading.Thread(target=caller, daemon=True); t.start()
time.sleep(0.1)                      # target is now borrowed by ensure_aw's helper
stop = loop_in_thread(target)        # returns at once: the loop "is running"
print('loop_in_thread returned, running =', target.is_running())
st = threading.Thread(target=stop, daemon=True); st.start()
st.join(3)
print('stop() returned within 3 s:', not st.is_alive(), '| caller got:', res.get('c0'), '| loop running:', target.is_running())
