"""C18 - split() / exhaust() against by-construction expectations (Engine D).

The source and the condition are logging objects owned by the harness; the two
result iterators are driven by a consumption script (any interleaving of
next() calls, possibly abandoning one side) and monitored after every step.
"""
from __future__ import annotations

import itertools
import random

from vf.core import Check, CaseResult

TRUTHY = [1, 'x', [0], True, (0,)]
FALSY = [0, '', None, [], False, ()]
COND_KINDS = ['call', 'call_stateful', 'list', 'iter', 'short', 'long', 'truthy']
SRC_KINDS = ['list', 'range', 'oneshot', 'iterable_obj', 'listsub', 'listsub']


class Monitor:
    def __init__(self):
        self.pulls = {}
        self.calls = {}
        self.iters = 0
        self.cond_pulls = {}


def build(case, mon: Monitor):
    src = case['src']
    L = len(src)
    truth = case['truth']
    kind = case['cond']
    sk = case['srck']

    def gen_src():
        for i, x in enumerate(src):
            mon.pulls[i] = mon.pulls.get(i, 0) + 1
            yield x

    class Iterable:
        def __iter__(self):
            mon.iters += 1
            return gen_src()

    class LoggingList(list):
        """a real Sequence (so any short-cut for re-iterable inputs applies) that logs its iteration"""
        def __iter__(self_):
            mon.iters += 1
            return gen_src()

    if sk == 'listsub':
        source = LoggingList(src)
    elif sk == 'list':
        source = list(src)
    elif sk == 'range' and src == list(range(L)):
        source = range(L)
    elif sk == 'iterable_obj':
        source = Iterable()
    else:
        source = gen_src()
    if kind == 'call':
        seen = [0]

        def cond(e):
            # answers by position: the harness knows the i-th evaluated element is src[i]
            i = seen[0]
            seen[0] += 1
            mon.calls[i] = mon.calls.get(i, 0) + 1
            return truth[i] if i < len(truth) else False
        m = L
    elif kind == 'call_stateful':
        state = {'n': 0}

        def cond(e):
            i = state['n']
            state['n'] += 1
            mon.calls[i] = mon.calls.get(i, 0) + 1
            return case['vals'][i] if i < len(case['vals']) else 0
        m = L
    else:
        m = {'list': L, 'iter': L, 'short': max(0, L - 2), 'long': L + 2, 'truthy': L}[kind]
        vals = case['vals'][:m]

        def gen_c():
            for i, v in enumerate(vals):
                mon.cond_pulls[i] = mon.cond_pulls.get(i, 0) + 1
                yield v
        class LoggingCond(list):
            def __iter__(self_):
                mon.cond_iters = getattr(mon, 'cond_iters', 0) + 1
                return gen_c()
        if kind in ('list', 'truthy', 'short', 'long') and case.get('cond_as_list', True):
            cond = LoggingCond(vals) if sk == 'listsub' else list(vals)
        else:
            cond = gen_c()
    return source, cond, m


def expected(case, m):
    src = case['src']
    k = min(len(src), m)
    vals = case['vals']
    t = [bool(vals[i]) for i in range(k)]
    return [src[i] for i in range(k) if t[i]], [src[i] for i in range(k) if not t[i]], t


def run_one(split, case):
    """-> list of (sig, what, detail)"""
    errs = []
    mon = Monitor()
    source, cond, m = build(case, mon)
    a, b = split(source, cond)
    if mon.pulls or mon.calls or mon.cond_pulls:
        errs.append(('C18:not-lazy', 'elements were pulled / evaluated before anything was consumed',
                     {'pulls': dict(mon.pulls), 'calls': dict(mon.calls)}))
    expT, expF, t = expected(case, m)
    gotT, gotF = [], []
    k = len(t)
    needed = -1
    stops = 0
    for c in case['script']:
        if c in 'xy':
            # the consumer abandons one half for good (closed / garbage collected while suspended): the other
            # half must go on yielding exactly its own elements
            if c == 'x':
                a = None
                expT = gotT[:]
            else:
                b = None
                expF = gotF[:]
            if case.get('gc'):
                import gc as _gc
                _gc.collect()       # a half that sits in a reference cycle is only finalised by the collector
            continue
        it, got, exp, want = (a, gotT, expT, True) if c == 'L' else (b, gotF, expF, False)
        if it is None:
            continue            # that half was abandoned
        idxs = [i for i in range(k) if t[i] == want]
        try:
            got.append(next(it))
            # to yield its n-th element this side had to reach that element's index
            need = idxs[len(got) - 1] if len(got) <= len(idxs) else k
        except StopIteration:
            need = k            # scanned to the end
            stops += 1          # every such probe may pull one more datum before seeing the selectors are exhausted
        needed = max(needed, need)
        if gotT != expT[:len(gotT)] or len(gotT) > len(expT):
            errs.append(('C18:true-side', 'the where-true iterator is not a prefix of the expected sequence',
                         {'got': repr(gotT), 'expected': repr(expT)}))
            break
        if gotF != expF[:len(gotF)] or len(gotF) > len(expF):
            errs.append(('C18:false-side', 'the where-false iterator is not a prefix of the expected sequence',
                         {'got': repr(gotF), 'expected': repr(expF)}))
            break
        if any(v > 1 for v in mon.calls.values()):
            errs.append(('C18:predicate-called-twice', 'the predicate was evaluated more than once for an element',
                         {'calls': dict(mon.calls)}))
            break
        if any(v > 1 for v in mon.pulls.values()) or mon.iters > 1 or getattr(mon, 'cond_iters', 0) > 1 \
                or any(v > 1 for v in mon.cond_pulls.values()):
            errs.append(('C18:source-consumed-twice', 'a source element was pulled more than once',
                         {'pulls': dict(mon.pulls), 'iters': mon.iters}))
            break
        if mon.pulls and max(mon.pulls) > needed + stops:
            errs.append(('C18:over-eager', 'the source was pulled further than the consumer needed',
                         {'max_pulled': max(mon.pulls), 'needed': needed}))
            break
        if case['cond'].startswith('call'):
            bad = [i for i in range(min(needed, k - 1) + 1) if mon.calls.get(i, 0) != 1]
            if bad:
                errs.append(('C18:predicate-not-once', 'an element that was passed was not evaluated exactly once',
                             {'index': bad[0], 'calls': dict(mon.calls)}))
                break
    # exhaust both fully when the script asked for it
    if case.get('finish') and not errs:
        restT = list(a) if a is not None else []
        restF = list(b) if b is not None else []
        if gotT + restT != expT or gotF + restF != expF:
            errs.append(('C18:partition', 'the two iterators together are not the expected partition',
                         {'true': repr(gotT + restT), 'false': repr(gotF + restF),
                          'expected_true': repr(expT), 'expected_false': repr(expF)}))
        if any(v > 1 for v in mon.calls.values()) or any(v > 1 for v in mon.pulls.values()):
            errs.append(('C18:evaluated-twice', 'an element was evaluated or pulled twice by the end',
                         {'calls': dict(mon.calls), 'pulls': dict(mon.pulls)}))
    return errs, (gotT, gotF)


def all_scripts(n):
    for ln in range(0, n + 1):
        yield from (''.join(p) for p in itertools.product('LR', repeat=ln))


class C18(Check):
    pid = 'C18'
    budget = {'quick': 30.0, 'thorough': 330.0}
    assumptions = [
        'single-threaded; expectations are computed from the scripted truth values by construction, never with '
        'split/compress/tee themselves',
        'laziness is judged as: nothing pulled before the first next(), and never more than one element beyond what '
        'the consumer needed (compress pulls the datum before the selector)',
    ]
    rule = ('cases = (source values over {0,1,2}, source kind list/range/one-shot iterator/iterable object, condition kind '
            'pure callable / stateful callable / bool list / bool iterator / shorter / longer / truthy-falsy non-bools, '
            'consumption script over {L,R} with optional final drain); complete enumeration up to source length 3 '
            '(thorough 4) with every script up to length len+2, sampled up to length 7; plus exhaust() on logging iterators; '
            'non-trivial = source length >= 2 with both sides non-empty or a length mismatch, and a script that touches both '
            'iterators; distinct = distinct cases')

    def setup(self):
        from aiuti.itertools import split, exhaust
        self.split = split
        self.exhaust = exhaust

    def cases(self, tier, seed):
        for L in range(0, 8):
            for kind in ('gen', 'iter', 'list', 'map'):
                yield {'exhaust': kind, 'n': L}
        maxL = 3 if tier == 'quick' else 4
        for L in range(0, maxL + 1):
            for src in itertools.product([0, 1, 2], repeat=L):
                for tr in itertools.product([False, True], repeat=L + 2):
                    if L + 2 > 2 and any(tr[L:]) and L >= 3:
                        continue        # extra selector values only matter for 'long'; keep them False for L>=3
                    for ck in COND_KINDS:
                        if ck != 'long' and any(tr[L:]):
                            continue
                        for sk in ('list', 'oneshot', 'listsub') if L else ('list',):
                            for sc in all_scripts(L + 1):
                                yield {'src': list(src), 'vals': list(tr), 'truth': list(tr), 'cond': ck, 'srck': sk,
                                       'script': sc, 'finish': True}
                                if 2 <= L <= 3 and ck in ('call', 'list') and len(sc) >= 1:
                                    for pos in range(1, len(sc) + 1):
                                        for dr in 'xy':
                                            yield {'src': list(src), 'vals': list(tr), 'truth': list(tr), 'cond': ck,
                                                   'srck': sk, 'script': sc[:pos] + dr + sc[pos:], 'finish': True}
        rng = random.Random(seed * 31 + 1)
        n = 40000 if tier == 'quick' else 900000
        for i in range(n):
            L = rng.randint(0, 7)
            src = [rng.randint(0, 2) for _ in range(L)]
            sk = rng.choice(SRC_KINDS)
            if sk == 'range':
                src = list(range(L))
            ck = rng.choice(COND_KINDS)
            tr = [rng.random() < 0.5 for _ in range(L + 2)]
            if ck in ('truthy', 'call_stateful'):
                vals = [rng.choice(TRUTHY) if t else rng.choice(FALSY) for t in tr]
            else:
                vals = list(tr)
            script = ''.join(rng.choice('LR') for _ in range(rng.randint(0, 2 * L + 4)))
            if rng.random() < 0.2:
                script = script.replace('R', '')
            if script and rng.random() < 0.25:
                pos = rng.randrange(len(script) + 1)
                script = script[:pos] + rng.choice('xy') + script[pos:]
            yield {'src': src, 'vals': vals, 'truth': tr, 'cond': ck, 'srck': sk, 'script': script,
                   'finish': rng.random() < 0.7, 'cond_as_list': rng.random() < 0.5, 'gc': rng.random() < 0.3}

    def run_case(self, case):
        res = CaseResult()
        st = res.stats
        if 'exhaust' in case:
            pulled = []
            n = case['n']

            def g():
                for i in range(n):
                    pulled.append(i)
                    yield i
                pulled.append('end')
            src = {'gen': g(), 'iter': iter(list(g())) if False else g(), 'list': [0] * n,
                   'map': map(pulled.append, range(n))}[case['exhaust']]
            out = self.exhaust(src)
            st['exhaust_cases'] += 1
            if out is not None:
                res.violate('C18:exhaust-returns', 'exhaust() returned something other than None', got=repr(out))
            if case['exhaust'] in ('gen', 'iter') and pulled != list(range(n)) + ['end']:
                res.violate('C18:exhaust-incomplete', 'exhaust() did not consume its whole argument', pulled=pulled)
            if case['exhaust'] == 'map' and pulled != list(range(n)):
                res.violate('C18:exhaust-incomplete', 'exhaust() did not consume its whole argument', pulled=pulled)
            res.nontrivial = n >= 2
            res.sample = {'exhaust': case['exhaust'], 'n': n, 'pulled': pulled}
            if res.nontrivial:
                st['nontrivial'] += 1
            return res
        errs, (gt, gf) = run_one(self.split, case)
        st['split_cases'] += 1
        st[f'cond_{case["cond"]}'] += 1
        st[f'source_{case["srck"]}'] += 1
        seen = set()
        for sig, what, detail in errs:
            if sig not in seen:
                seen.add(sig)
                res.violate(sig, what, case={k: repr(v) for k, v in case.items()}, **detail)
        L = len(case['src'])
        both = 'L' in case['script'] and 'R' in case['script']
        if 'x' in case['script'] or 'y' in case['script']:
            st['scripts_dropping_one_half'] += 1
        if both:
            st['scripts_touching_both_iterators'] += 1
            if case['script'].find('R') < case['script'].rfind('L'):
                st['scripts_interleaving'] += 1
        res.nontrivial = L >= 2 and both
        if res.nontrivial:
            st['nontrivial'] += 1
            res.sample = {'case': {k: repr(v) for k, v in case.items()}, 'true_side': repr(gt), 'false_side': repr(gf)}
        return res

    def floors(self, tier):
        k = 1 if tier == 'quick' else 10
        return {'nontrivial': 20000 * k, 'scripts_interleaving': 10000 * k, 'exhaust_cases': 32,
                'scripts_dropping_one_half': 5000 * k, 'cond_call_stateful': 3000 * k, 'cond_short': 3000 * k, 'cond_long': 3000 * k, 'source_oneshot': 5000 * k, 'source_listsub': 5000 * k}

    def extra_evidence(self, tier, agg):
        return {'exhaustive': False,
                'exhaustive_note': f'source length <= {3 if tier == "quick" else 4} x all condition kinds x all scripts of length '
                                   '<= len+1 enumerated completely; longer cases sampled'}


def get_check(pid):
    return C18()
