"""Development helper: run the first N cases of a check in-process and print what was seen."""
import collections, sys, time, json, logging, warnings
from vf import core

def main():
    pid, n = sys.argv[1], int(sys.argv[2])
    tier = sys.argv[3] if len(sys.argv) > 3 else 'quick'
    seed = int(sys.argv[4]) if len(sys.argv) > 4 else 0
    show = int(sys.argv[5]) if len(sys.argv) > 5 else 1
    logging.disable(logging.CRITICAL); warnings.simplefilter('ignore')
    c = core.load_check(pid); c.setup()
    stats = collections.Counter(); sigs = collections.Counter(); shown = collections.Counter()
    t = time.time(); k = 0; nt = 0
    import os
    only = os.environ.get('DEV_ONLY')        # e.g. DEV_ONLY=kind=concurrent
    for case in c.cases(tier, seed):
        if k >= n: break
        if only and str(case.get(only.split('=')[0])) != only.split('=')[1]: continue
        k += 1
        r = c.run_case(case)
        stats.update(r.stats)
        nt += bool(r.nontrivial)
        if r.inconclusive:
            stats['INCONCLUSIVE'] += 1
            if shown['inc'] < 2:
                shown['inc'] += 1; print('INC', case, r.inconclusive, r.sample)
        for v in r.violations:
            sigs[v['sig']] += 1
            if shown[v['sig']] < show:
                shown[v['sig']] += 1
                print('VIOL', case, v['sig'], v['what'])
                print(json.dumps(core.jsonable(v['detail']))[:1500])
                if r.sample and 'log' in r.sample:
                    for e in r.sample['log']: print('     ', e)
        if r.dirty: print('DIRTY', case); break
    dt = time.time() - t
    print(f'{k} cases {dt:.1f}s ({k/dt:.0f}/s) nontrivial={nt}')
    for a, b in sorted(stats.items()): print('  ', a, b)
    print('violations:', dict(sigs))
main()
