"""C16 - to_async_iter / to_sync_iter under SimRT (Engine A).

Sources are the harness's (they log every step, block for scripted virtual
durations and raise a unique exception at a scripted position); the consumer
records what it received; a ticker task measures loop responsiveness; the sim
executor records every helper thread it started.
"""
from __future__ import annotations

import asyncio as aio
import random

from vf import simrt
from vf.core import Check, CaseResult, HarnessError, HarnessSignal, U, EPS

TICK = 4 * U
# elements may themselves be exception instances (results of gather(return_exceptions=True), say): they are
# data to be yielded, not failures of the source
class _Anything:
    """compares equal to everything (unittest.mock.ANY, a wildcard matcher): still an element like any other"""
    def __eq__(self, other):
        return True

    def __ne__(self, other):
        return False

    def __hash__(self):
        return 1

    def __repr__(self):
        return '<ANYTHING>'


ELEMS = [None, 0, '', 1, 1, 2, (), False, 'x', _Anything(), ValueError('an element, not a failure'), KeyError('k'),
         StopIteration('elem'), StopAsyncIteration('elem'), HarnessError('element'), KeyboardInterrupt, RuntimeError]


def gen(rng):
    n = rng.randint(0, 6)
    elems = [rng.choice(ELEMS) for _ in range(n)]
    if rng.random() < 0.2:
        elems = [object.__new__(object) if rng.random() < 0.3 else e for e in elems]
    kind = rng.choice(['a-gen', 'a-iter', 'a-list', 'a-range', 'a-listiter', 's-agen', 's-agen-loop', 's-aiter'])
    fail = rng.choice([None, None] + list(range(n + 1)))
    if kind in ('a-list', 'a-range', 'a-listiter'):
        fail = None
    if kind == 'a-range':
        elems = list(range(n))
    scen = {'kind': kind, 'elems': elems, 'fail': fail, 'fail_class': rng.choice(['error', 'error', 'signal']),
            'pd': rng.choice([0, TICK / 2, 5 * TICK, 5 * TICK, 50 * TICK, 300 * TICK]),
            'cd': rng.choice([0, TICK / 2, 5 * TICK, 5 * TICK, 50 * TICK])}
    if rng.random() < 0.04 and kind not in ('a-list', 'a-range'):
        # a long source whose consumer is (or starts) far behind: everything the bridge buffers is outstanding at the end
        n = rng.choice([31, 32, 33, 34, 63, 64, 65, 100, 129, 257])
        scen['elems'] = [rng.choice(ELEMS) if rng.random() < 0.2 else i for i in range(n)]
        scen['fail'] = None if kind == 'a-listiter' else rng.choice([None, None, n, n - 1, n // 2])
        scen['pd'] = 0
        scen['cd'] = rng.choice([TICK / 2, TICK / 2, 0])
        scen['late_first_read'] = rng.choice([0, 50 * TICK])
    elif rng.random() < 0.15:
        # a second bridge iterated to its end inside the body of the first one's loop (same thread / same task)
        m = rng.randint(0, 4)
        scen['inner'] = {'elems': list(range(m)) if kind == 'a-range' else [rng.choice(ELEMS) for _ in range(m)],
                         'at': rng.randint(0, max(0, n - 1))}
        if kind in ('s-agen', 's-agen-loop') and m % 2:
            scen['inner_where'] = 'source'
    if kind.startswith('a-'):
        # how the consumer drives the async iterator: `async for` in one task, or one __anext__ at a time, each awaited
        # in a task of its own / through shield / through asyncio.wait (a consumer multiplexing several sources does that)
        scen['consume'] = rng.choice(['for', 'for', 'task', 'shield', 'wait'])
    if kind == 's-agen-loop' and rng.random() < 0.4:
        # the caller-supplied loop has a history: an earlier bridge on it was left early (after 0..2 of its 3 elements,
        # right away or long after its source had finished); the judged iteration that follows is a perfectly normal one
        scen['prelude'] = {'read': rng.randint(0, 2), 'wait': rng.choice([0, 0, 20 * TICK]), 'pd': rng.choice([0, TICK / 2, 5 * TICK])}
    return scen


def _who():
    import threading
    m = simrt.me()
    return m.name if m is not None else threading.current_thread().name


class IterHarness:
    def __init__(self, A, execute=None):
        self.A = A
        self.execute = execute or simrt.execute

    def run(self, scen, strategy, delays=None):
        A = self.A
        kind = scen['kind']
        elems = scen['elems']
        fail = scen['fail']
        pd, cd = scen['pd'], scen['cd']
        n = len(elems)
        box = {'got': [], 'end': None, 'ticks': [], 'src_threads': set(), 'alive': None, 'err': None}

        def main(s):
            # the source's failure: an ordinary exception, or one that is BaseException but not Exception
            err = (HarnessSignal if scen.get('fail_class') == 'signal' else HarnessError)('source', id(s))
            box['err'] = err
            spawned_before = len(s.ts) if hasattr(s, 'ts') else 0

            def emit(*ev):
                if not s.dead:
                    s.log.append(ev + (s.now,))

            def sgen(elems=elems, fail=fail, tag=''):
                n = len(elems)
                for i, x in enumerate(elems):
                    if pd:
                        simrt.sim_sleep(pd)
                    box['src_threads'].add(_who())
                    emit(tag + 'src_next', i, _who())
                    if fail == i:
                        raise err
                    yield x
                emit(tag + 'src_end', _who())
                if fail == n:
                    raise err

            class It:
                def __init__(self, *a):
                    self.g = sgen(*a)

                def __iter__(self):
                    return self

                def __next__(self):
                    return next(self.g)

            async def agen(elems=elems, fail=fail, tag=''):
                n = len(elems)
                for i, x in enumerate(elems):
                    if pd:
                        await aio.sleep(pd)
                    emit(tag + 'asrc_next', i)
                    if tag == '' and scen.get('inner_where') == 'source' and scen.get('inner') and i == scen['inner']['at']:
                        # legacy synchronous code called from inside the async source uses a bridge of its own
                        box['inner_got'] = list(A.to_sync_iter(agen(scen['inner']['elems'], None, 'in_')))
                        box['inner_end'] = 'stop'
                    if fail == i:
                        raise err
                    yield x
                if fail == n:
                    raise err

            class AIt:
                def __init__(self, elems=elems, fail=fail, tag=''):
                    self.i = 0
                    self.elems, self.fail, self.tag = elems, fail, tag

                def __aiter__(self):
                    return self

                async def __anext__(self):
                    if pd:
                        await aio.sleep(pd)
                    i = self.i
                    self.i += 1
                    elems, fail = self.elems, self.fail
                    emit(self.tag + 'asrc_next', i)
                    if fail == i:
                        raise err
                    if i >= len(elems):
                        if fail == len(elems):
                            raise err
                        raise StopAsyncIteration
                    return elems[i]

            inner = scen.get('inner')
            late = scen.get('late_first_read', 0)

            import threading as _th
            real_before = {t.ident for t in _th.enumerate()}

            def helper_threads_alive():
                if hasattr(s, 'ts'):
                    return [t.name for t in s.ts[spawned_before:] if t.name.startswith('pool') and t.st != simrt.DONE]
                # Engine B: real executor threads that did not exist before the iteration started
                return [t.name for t in _th.enumerate() if t.ident not in real_before and t.is_alive()
                        and t.name.startswith('ThreadPoolExecutor')]

            def consumer():
                if kind.startswith('a-'):
                    loop = aio.new_event_loop()
                    aio.set_event_loop(loop)

                    async def ticker():
                        while box['end'] is None:
                            box['ticks'].append(s.now)
                            await aio.sleep(TICK)

                    mode = scen.get('consume', 'for')

                    async def items(ait):
                        if mode == 'for':
                            async for x in ait:
                                yield x
                            return
                        it = ait.__aiter__()
                        while True:
                            try:
                                if mode == 'task':
                                    x = await aio.ensure_future(it.__anext__())
                                elif mode == 'shield':
                                    x = await aio.shield(it.__anext__())
                                else:
                                    t = aio.ensure_future(it.__anext__())
                                    await aio.wait({t})
                                    x = t.result()
                            except StopAsyncIteration:
                                return
                            yield x

                    async def main_coro():
                        tk = aio.ensure_future(ticker())
                        mk = {'a-gen': lambda e, *a: sgen(e, *a), 'a-iter': lambda e, *a: It(e, *a), 'a-list': lambda e, *a: list(e),
                              'a-range': lambda e, *a: range(len(e)), 'a-listiter': lambda e, *a: iter(list(e))}[kind]
                        src = mk(elems, fail, '')
                        try:
                            ait = A.to_async_iter(src)
                            if late:
                                await aio.sleep(late)
                            async for x in items(ait):
                                box['got'].append(x)
                                emit('got', len(box['got']) - 1)
                                if inner is not None and len(box['got']) - 1 == inner['at']:
                                    box['inner_got'] = []
                                    async for y in A.to_async_iter(mk(inner['elems'], None, 'in_')):
                                        box['inner_got'].append(y)
                                        emit('in_got', len(box['inner_got']) - 1)
                                        if cd:
                                            await aio.sleep(cd)
                                    box['inner_end'] = 'stop'
                                if cd:
                                    await aio.sleep(cd)
                            box['end'] = 'stop'
                        except (HarnessError, HarnessSignal) as e:
                            box['end'] = e
                        except BaseException as e:     # noqa
                            box['end'] = ('other', repr(e))
                        box['alive'] = helper_threads_alive()
                        emit('finished', box['alive'])
                        await tk
                    loop.run_until_complete(main_coro())
                    loop.close()
                else:
                    own = None
                    if kind == 's-agen-loop':
                        own = aio.new_event_loop()
                    mk = AIt if kind == 's-aiter' else agen
                    pre_ = scen.get('prelude')
                    if pre_ is not None and own is not None:
                        async def presrc():
                            for i in range(3):
                                if pre_['pd']:
                                    await aio.sleep(pre_['pd'])
                                yield ('pre', i)
                        it0 = iter(A.to_sync_iter(presrc(), loop=own))
                        for _ in range(pre_['read']):
                            next(it0)
                        if pre_['wait']:
                            s.sleep(pre_['wait'])
                        it0.close()
                        del it0
                        emit('prelude_done')
                    src = mk()
                    try:
                        it = A.to_sync_iter(src, loop=own) if own is not None else A.to_sync_iter(src)
                        if late:
                            it = iter(it)
                            box['got'].append(next(it))       # (starts the bridge), then falls far behind
                            emit('got', 0)
                            s.sleep(late)
                        for x in it:
                            box['got'].append(x)
                            emit('got', len(box['got']) - 1)
                            if inner is not None and scen.get('inner_where') != 'source' and len(box['got']) - 1 == inner['at']:
                                box['inner_got'] = []
                                for y in A.to_sync_iter(mk(inner['elems'], None, 'in_')):
                                    box['inner_got'].append(y)
                                    emit('in_got', len(box['inner_got']) - 1)
                                    if cd:
                                        s.sleep(cd)
                                box['inner_end'] = 'stop'
                            if cd:
                                s.sleep(cd)
                        box['end'] = 'stop'
                    except (HarnessError, HarnessSignal) as e:
                        box['end'] = e
                    except BaseException as e:     # noqa
                        box['end'] = ('other', repr(e))
                    box['alive'] = helper_threads_alive()
                    emit('finished', box['alive'])

            s.spawn(consumer, 'C')

        def pre(s):
            if delays and hasattr(s, 'line_delays'):
                s.line_delays = [dict(d) for d in delays]

        r = self.execute(main, strategy, max_steps=60000 if len(elems) < 30 else 400000, watchdog=60.0, pre=pre, max_virtual=90.0)
        r.extra = box
        return r


class C16(Check):
    pid = 'C16'
    anchors = ('to_async_iter', 'to_sync_iter')
    budget = {'quick': 35.0, 'thorough': 500.0}
    SIZES = {'quick': 90000, 'thorough': 1200000}
    assumptions = [
        'Engine A: ThreadPoolExecutor and queue.Queue inside aiuti.asyncio are replaced by sim equivalents whose '
        'worker threads are registered sim threads; line-level interleaving of producer thread and consumer',
        'early abandonment by the consumer is outside the statement and not generated',
        'responsiveness is judged only for Iterator sources (plain iterables are iterated inline by design)',
    ]
    rule = ('cases = sources of length 0-6 (4 %: 31-257 elements with the consumer far behind; 15 %: a second bridge iterated '
            'to its end inside the first one\'s loop body or inside the async source itself) (list, range, list iterator, generator, iterator object, async generator, async '
            'iterator object; elements None/falsy/duplicates/fresh objects/exception instances/an object equal to everything), failure at every '
            'position or none (a third of the failures are BaseException but not Exception), producer and '
            'consumer step durations {0, tick/2, 5 ticks}, to_sync_iter with and without an explicit loop, random/pct/stall '
            'schedules; non-trivial = an Iterator/async source of length >= 2 or a failing source; distinct = (case, baton moves)')

    def setup(self):
        import aiuti.asyncio as A
        simrt.prepare([A])
        self.h = IterHarness(A)

    REAL = {'quick': 16, 'thorough': 320}

    def cases(self, tier, seed):
        n = self.SIZES[tier]
        nreal = self.REAL[tier]
        every = max(1, n // nreal)
        for i in range(n):
            if i % every == 0 and i // every < nreal:
                yield {'real': True, 'seed': (seed << 32) + i}
            yield {'seed': (seed << 32) + i}

    def run_case(self, case):
        if case.get('real'):
            from vf import engine_b
            return engine_b.batch_case('iters', 'x', case['seed'], 30, 'nontrivial')
        rng = random.Random(case['seed'])
        scen = gen(rng)
        k = rng.random()
        if k < 0.6:
            strat = simrt.Strategy('random', rng.choice([0.05, 0.3, 0.6]), seed=rng.randrange(1 << 30))
        elif k < 0.8:
            strat = simrt.Strategy('pct', d=3, span=rng.choice([100, 400]), seed=rng.randrange(1 << 30))
        else:
            strat = simrt.Strategy('stall', p=0.1, thread=rng.choice(['C', 'pool1of2']), k=rng.randrange(1, 150),
                                   seed=rng.randrange(1 << 30))
        delays = None
        if rng.random() < 0.3:
            # long preemption of the consumer or of the producer thread at one line of the bridge
            delays = [{'thread': rng.choice(['C', 'C', 'pool']), 'qual': rng.choice(['to_async_iter', 'to_sync_iter']),
                       'nth': rng.randint(1, 40), 'd': rng.choice([TICK, 10 * TICK, 100 * TICK])}]
        r = self.h.run(scen, strat, delays)
        return self.judge(scen, r, strat)

    def judge(self, scen, r, strat, real=False):
        res = CaseResult()
        res.sig = r.signature
        res.cov = {k: c for k, c in r.sched.line_cov.items() if k[0].startswith(self.anchors)}
        res.switch_cov = {k for k in r.sched.switch_lines if k[0].startswith(self.anchors)}
        if r.verdict == 'watchdog' or not r.clean:
            res.dirty = True
        if r.verdict == 'watchdog':
            res.inconclusive = 'wall-clock watchdog'
            return res
        if r.thread_errors:
            res.inconclusive = 'harness thread error: ' + repr(r.thread_errors[:2])
            return res
        st = res.stats
        st['executions'] += 1
        if r.sched.delays_fired:
            st['long_delay_injected'] += 1
        kind = scen['kind']
        st[f'kind_{kind}'] += 1
        if scen.get('consume', 'for') != 'for':
            st['consumer_awaits_each_anext_in_its_own_task_or_shield'] += 1
        if scen.get('prelude') is not None and any(e[0] == 'prelude_done' for e in r.log):
            st['loop_with_an_abandoned_earlier_bridge'] += 1
        box = r.extra
        elems, fail = scen['elems'], scen['fail']
        exp = elems if fail is None else elems[:fail]
        got = box['got']
        if r.verdict in ('deadlock', 'stepbound', 'timebound'):
            res.violate('C16:consumer-hangs', f'{r.verdict}: iteration never finished', blocked=r.blocked,
                        received=len(got), expected=len(exp), fail=fail)
        else:
            if len(got) != len(exp) or any(a is not b for a, b in zip(got, exp)):
                res.violate('C16:sequence', 'consumed sequence differs from the source prefix',
                            got=[repr(x) for x in got], expected=[repr(x) for x in exp])
            if fail is None:
                if box['end'] != 'stop':
                    res.violate('C16:termination', 'iteration did not stop normally', end=repr(box['end']))
            else:
                st['failing_source'] += 1
                st[f'failure_class_{scen.get("fail_class", "error")}'] += 1
                st[f'fail_at_{"start" if fail == 0 else "end" if fail == len(elems) else "middle"}'] += 1
                if box['end'] is not box['err']:
                    res.violate('C16:error-not-propagated', 'the consumer did not receive the source\'s exception',
                                end=repr(box['end']), after=len(got))
            inner = scen.get('inner')
            if inner is not None and inner['at'] < len(exp):
                st['nested_second_bridge'] += 1
                ig = box.get('inner_got')
                if ig is None or len(ig) != len(inner['elems']) or any(a is not b for a, b in zip(ig, inner['elems'])) \
                        or box.get('inner_end') != 'stop':
                    res.violate('C16:sequence', 'a second bridge iterated inside the first one\'s loop body did not yield its source',
                                got=[repr(x) for x in ig or []], expected=[repr(x) for x in inner['elems']])
            if len(elems) >= 30:
                st['long_source_consumer_behind'] += 1
            if box['alive']:
                res.violate('C16:helper-thread-left', 'a helper thread was still running when iteration finished',
                            threads=box['alive'])
            threaded = kind in ('a-gen', 'a-iter', 'a-listiter')
            if threaded and kind != 'a-listiter':
                if 'C' in box['src_threads']:
                    res.violate('C16:iterated-on-loop-thread', 'a synchronous iterator was advanced on the event-loop thread')
                gaps = [b - a for a, b in zip(box['ticks'], box['ticks'][1:])]
                # (a delay injected into the loop thread itself stalls the ticker by construction)
                if not real and scen['pd'] > TICK and not any(d[0] == 'C' for d in r.sched.delays_fired):
                    st['responsiveness_judged'] += 1
                    if gaps and max(gaps) > TICK + EPS:
                        res.violate('C16:loop-blocked', 'the event loop did not run while the synchronous iterator was blocked',
                                    max_gap=max(gaps) / U, tick=TICK / U, producer_step=scen['pd'] / U)
            if scen['pd'] > scen['cd']:
                st['producer_slower'] += 1
            elif scen['pd'] < scen['cd']:
                st['producer_faster'] += 1
        res.nontrivial = (kind not in ('a-list', 'a-range') and len(elems) >= 2) or fail is not None
        if res.nontrivial:
            st['nontrivial'] += 1
        if res.violations or res.nontrivial:
            sc = dict(scen)
            sc['elems'] = [repr(e) for e in scen['elems']]
            res.sample = {'scenario': sc, 'strategy': strat.describe() if strat else 'engine B (free-running)', 'received': [repr(x) for x in got],
                          'end': repr(box['end']), 'log': r.log[:40], 'switches': r.sched.switches[:10]}
        return res

    def floors(self, tier):
        k = 2 if tier == 'quick' else 30
        return {'nontrivial': 10000 * k, 'long_delay_injected': 1000 * k, 'failing_source': 5000 * k, 'responsiveness_judged': 1000 * k,
                'nested_second_bridge': 1000 * k, 'long_source_consumer_behind': 500 * k, 'kind_s-agen': 1000 * k, 'kind_a-gen': 1000 * k, 'fail_at_start': 500 * k, 'fail_at_end': 500 * k,
                'consumer_awaits_each_anext_in_its_own_task_or_shield': 1500 * k, 'loop_with_an_abandoned_earlier_bridge': 200 * k,
                'fail_at_middle': 500 * k}


def get_check(pid):
    return C16()
