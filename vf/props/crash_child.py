"""Child for C13: runs one FileLock scenario and SIGKILLs itself at the n-th LINE event
fired inside aiuti/filelock.py.  argv: lockpath n scenario
Before dying it announces: n qualname line is_locked fds_open_beyond_baseline
"""
import os
import signal
import sys


def main():
    path, n_kill, scen = sys.argv[1], int(sys.argv[2]), sys.argv[3]
    import logging
    logging.disable(logging.CRITICAL)
    import aiuti.filelock as F
    from vf.simrt import module_code_objects
    mon = sys.monitoring
    mon.use_tool_id(3, 'verif-crash')
    cnt = [0]
    ref = [None]
    base = [0]

    armed = [scen != 'forked_worker']

    holding = []

    def cb(code, line):
        if not armed[0]:
            return
        cnt[0] += 1
        if n_kill >= 10 ** 9:
            # dry run: remember at which events the lock is held (the parent aims extra kills with contenders there)
            l_ = ref[0]
            if l_ is not None and l_.is_locked:
                holding.append(cnt[0])
        if cnt[0] == n_kill:
            l = ref[0]
            try:
                extra = len(os.listdir('/proc/self/fd')) - base[0]
            except OSError:
                extra = -1
            os.write(1, f'KILL {cnt[0]} {code.co_qualname} {line} {int(bool(l is not None and l.is_locked))} {extra}\n'.encode())
            hold = float(os.environ.get('VERIF_CHILD_HOLD') or 0)
            if hold and l is not None and l.is_locked:
                # a holder that has had the lock for a while when it dies (a waiter is many attempts into its acquire)
                import time
                time.sleep(hold)
            os.kill(os.getpid(), signal.SIGKILL)

    mon.register_callback(3, mon.events.LINE, cb)
    for co in module_code_objects(F):
        mon.set_local_events(3, co, mon.events.LINE)
    if scen.endswith('_nostdin'):
        # a daemon: standard input is closed, so the lock file lands on descriptor 0
        os.close(0)
        scen = scen[:-len('_nostdin')]
    base[0] = len(os.listdir('/proc/self/fd'))
    l = F.FileLock(path, reentrant=scen in ('nested', 'nested_force'))
    ref[0] = l
    if scen == 'plain':
        l.acquire()
        l.release()
    elif scen == 'with':
        with l:
            pass
    elif scen == 'ctx':
        with l.acquire_ctx(timeout=5):
            pass
    elif scen == 'nonblocking':
        if l.acquire(blocking=False):
            l.release()
    elif scen == 'nested':
        l.acquire()
        l.acquire()
        l.release()
        l.release()
    elif scen == 'nested_force':
        l.acquire()
        l.acquire()
        l.release(force=True)
    elif scen == 'timed_vs_holder':
        # the parent holds the kernel lock: this polls and times out
        got = l.acquire(timeout=0.12)
        if got:
            l.release()
    elif scen == 'default_timeout':
        l2 = F.FileLock(path, timeout=2)
        ref[0] = l2
        try:
            with l2:
                pass
        except TimeoutError:
            pass
    elif scen == 'with_subprocess':
        import subprocess
        l.acquire()
        p = subprocess.Popen(['sleep', '6'], close_fds=False)
        l.release()
        l.acquire()
        l.release()
    elif scen == 'forked_worker':
        # a pre-fork server: this process has used its lock object, forks a worker that inherits it and stays alive
        # (idle, never touching the lock again); the worker takes the lock through the inherited object and is killed
        l.acquire()
        l.release()
        sys.stdout.flush()
        pid = os.fork()
        if pid == 0:
            armed[0] = True
            l.acquire()
            l.release()
            os.write(1, f'TOTAL {cnt[0]}\n'.encode())
            os._exit(0)
        _, status = os.waitpid(pid, 0)
        if os.WIFSIGNALED(status):
            os.write(1, f'WORKER_DEAD {os.WTERMSIG(status)}\n'.encode())
            import time
            t0 = time.time()
            got = []
            signal.signal(signal.SIGTERM, lambda *a: got.append(1))
            while not got and time.time() - t0 < 60:
                time.sleep(0.01)
            os.write(1, f'PARENT_VIEW {int(bool(l.is_locked))}\n'.encode())
        return
    elif scen == 'del':
        l.acquire()
        ref[0] = None
        del l
    if holding:
        os.write(1, ('HOLDING ' + ','.join(map(str, holding)) + '\n').encode())
    os.write(1, f'TOTAL {cnt[0]}\n'.encode())


if __name__ == '__main__':
    main()
