#!/usr/bin/env python3
"""Writes seeded/INDEX.md: every stored seeded change, what it needs, which check catches it with which signature."""
import glob, json, os
HERE = os.path.dirname(os.path.dirname(os.path.abspath(__file__)))
rows = []
for f in sorted(glob.glob(os.path.join(HERE, 'seeded', '*', 'meta.json'))):
    m = json.load(open(f))
    c = m['confirmation']
    name = os.path.basename(os.path.dirname(f))
    caught = []
    for pid in c.get('caught_by') or []:
        sigs = [s.split(':')[1] for s in c['checks'][pid]['signatures'][:2]]
        caught.append(f"{pid} ({', '.join(sigs)})")
    summ = (m.get('summary') or '').replace('|', '/').replace('\n', ' ')
    needs = (m.get('needs') or '')
    if isinstance(needs, (list, dict)):
        needs = json.dumps(needs)
    needs = needs.replace('|', '/').replace('\n', ' ')
    rows.append(f"| `{name}` | {summ[:260]} | {needs[:260]} | {'; '.join(caught) or 'NOT CAUGHT'} |")
with open(os.path.join(HERE, 'seeded', 'INDEX.md'), 'w') as f:
    f.write('# Seeded changes written by independent sub-agents\n\n'
            'Each was confirmed by `tools/seeded.py` (compiles, repository suite still 42 passed, demo passes without and fails with the change) '
            'and then run against the quick check(s) named in the last column (exit 1 + VIOLATION; signature(s) in brackets).\n\n'
            '| change | what was changed | what it needs to manifest | caught by |\n|---|---|---|---|\n' + '\n'.join(rows) + '\n')
print(len(rows), 'rows')
