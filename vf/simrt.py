"""Engine A - SimRT.

Real CPython threads running the real ``aiuti`` byte code, but

* exactly one registered thread runs at a time (baton scheduler); the baton may
  move at *yield points*: every source line of ``aiuti`` (``sys.monitoring``
  LINE events), every event-loop iteration and every operation on a blocking
  primitive;
* the clock is virtual and advances only when every registered thread is
  blocked, to the earliest deadline.

Nothing in here knows about any property.  See DESIGN.md section 2.1.
"""
from __future__ import annotations

import asyncio
import concurrent.futures as cf
import errno
import fcntl as _real_fcntl
import gc
import hashlib
import os as _real_os
import queue as _real_queue
import random
import sys
import threading
import time as _real_time
import types
from collections import deque

RUN, BLK, DONE = 'RUN', 'BLK', 'DONE'
TICK = 2.0 ** -30          # one read of time.time() costs this much virtual time

_real_Lock = threading.Lock
_real_RLock = threading.RLock
_LockType = type(threading.Lock())
_RLockType = type(threading.RLock())
_real_TPE = cf.ThreadPoolExecutor
_real_sleep = _real_time.sleep
_real_monotonic = _real_time.monotonic


class SchedKill(SystemExit):
    """Thrown into parked threads when an execution is torn down."""


class HarnessFault(Exception):
    """The harness (not the code under test) cannot continue."""


class TS:
    """State of one registered thread."""
    __slots__ = ('name', 'sem', 'st', 'pred', 'deadline', 'timed_out', 'daemon',
                 'thread', 'tag', 'nyield', 'prio', 'held', 'idx')

    def __init__(self, name, daemon, idx):
        self.name = name
        self.sem = threading.Semaphore(0)
        self.st = RUN
        self.pred = None
        self.deadline = None
        self.timed_out = False
        self.daemon = daemon
        self.thread = None
        self.tag = None
        self.nyield = 0
        self.prio = 0.0
        self.held = False
        self.idx = idx

    def __repr__(self):
        return f'<TS {self.name} {self.st} {self.tag}>'


_local = threading.local()
CUR: list = [None]          # the scheduler of the execution in progress (or None)


def cur():
    return CUR[0]


def me():
    """TS of the calling thread if it takes part in the current execution."""
    s = CUR[0]
    if s is None:
        return None
    t = getattr(_local, 'ts', None)
    if t is None or getattr(_local, 'sched', None) is not s:
        return None
    return t


class Strategy:
    """Decides at every yield point whether the baton moves.

    kinds:
      random   p                         switch with probability p
      pct      d, span                   random priorities, d-1 priority drops
      stall    thread, k, p              hold `thread` at its k-th yield point
                                         until nobody else can run
      none                               never switch voluntarily
    """

    def __init__(self, kind='random', p=0.2, d=3, span=2000, thread=None, k=0,
                 seed=0):
        self.kind = kind
        self.p = p
        self.d = d
        self.span = span
        self.thread = thread
        self.k = k
        self.rng = random.Random(seed)
        self.change_points = set()
        if kind == 'pct':
            self.change_points = {self.rng.randrange(1, max(2, span))
                                  for _ in range(max(0, d - 1))}
        self.stalled_done = False

    def describe(self):
        d = {'kind': self.kind}
        if self.kind in ('random', 'stall'):
            d['p'] = self.p
        if self.kind == 'pct':
            d.update(d=self.d, span=self.span)
        if self.kind == 'stall':
            d.update(thread=self.thread, k=self.k)
        return d

    # -- called by the scheduler -------------------------------------
    def on_spawn(self, t):
        if self.kind == 'pct':
            t.prio = self.rng.random() + 1.0

    def pick(self, sched, me_, enabled, forced):
        """me_ may be None (baton is being passed on) or a member of enabled."""
        rng = self.rng
        kind = self.kind
        if kind == 'pct':
            if sched.steps in self.change_points and me_ is not None:
                me_.prio = -sched.steps * 1e-9      # lowest so far
            best = None
            for t in enabled:
                if forced and t is me_ and len(enabled) > 1:
                    continue
                if best is None or t.prio > best.prio:
                    best = t
            return best
        if kind == 'stall':
            # the stalled thread is not eligible while held and others can run
            if not self.stalled_done:
                for t in enabled:
                    if t.name == self.thread and t.nyield >= self.k:
                        t.held = True
                cand = [t for t in enabled if not t.held]
                if not cand:               # nobody else: release the stall
                    for t in enabled:
                        if t.held:
                            t.held = False
                            self.stalled_done = True
                    cand = enabled
            else:
                cand = enabled
            if me_ is not None and me_ in cand and not forced:
                if len(cand) == 1 or rng.random() >= self.p:
                    return me_
            others = [t for t in cand if t is not me_] or cand
            return others[rng.randrange(len(others))]
        if kind == 'none':
            if me_ is not None and me_ in enabled and not (forced and len(enabled) > 1):
                return me_
            others = [t for t in enabled if t is not me_] or enabled
            return others[0]
        # random
        if me_ is not None and me_ in enabled and not forced:
            if len(enabled) == 1 or rng.random() >= self.p:
                return me_
        others = [t for t in enabled if t is not me_] or enabled
        return others[rng.randrange(len(others))]


class Sched:
    def __init__(self, strategy=None, max_steps=200000, lines=True):
        self.strategy = strategy or Strategy('random', 0.2, seed=0)
        self.ts = []                 # creation order
        self.cur = None
        self.now = 0.0
        self.steps = 0               # yield points since the clock last moved
        self.total_steps = 0
        self.max_steps = max_steps
        self.switches = []           # (from, to, tag)
        self.verdict = None          # None | deadlock | stepbound | watchdog | fault
        self.fault = None
        self.blocked_at_end = []
        self.finished = threading.Event()
        self.in_sched = False
        self.dead = False
        self.lines = lines
        self.hooks = {}              # (thread name, k) -> callable
        self.loops = []              # every SimLoop created during the execution and not yet closed
        self.nloops = 0
        self.max_runners_seen = 0    # most threads ever inside run_forever of one loop at once
        self.line_cov = {}           # (qualname, line) -> count
        self.switch_lines = set()    # (qualname, line) at which the baton moved
        self.time_advances = 0
        self.log = []                # harness event log (owned by the harness)
        self.unregistered_ops = 0
        self.max_virtual = 7200.0    # virtual-time horizon (seconds)
        self.line_delays = []        # [{'thread', 'qual', 'nth', 'd'}]
        self.delays_fired = []

    # ---- thread management -------------------------------------------
    def spawn(self, fn, name=None, daemon=False):
        idx = len(self.ts)
        if name is None:
            name = f't{idx}'
        t = TS(name, daemon, idx)
        self.strategy.on_spawn(t)

        def body():
            _local.ts = t
            _local.sched = self
            t.sem.acquire()
            try:
                if self.dead:
                    return
                fn()
            except SchedKill:
                pass
            except BaseException as e:     # noqa - harness thread bodies report themselves
                if not self.dead:
                    self.thread_errors.append((name, repr(e)))
            finally:
                t.st = DONE
                if not self.dead:
                    self.in_sched = True
                    try:
                        self._pass_baton(t, 'exit')
                    finally:
                        self.in_sched = False

        t.thread = threading.Thread(target=body, name=f'sim-{name}', daemon=True)
        self.ts.append(t)
        t.thread.start()
        return t

    thread_errors: list

    def run(self, main, watchdog=60.0):
        """Called by the controller (an unregistered thread)."""
        self.thread_errors = []
        m = self.spawn(main, 'main')
        self.cur = m
        m.sem.release()
        if not self.finished.wait(watchdog):
            self.verdict = 'watchdog'
        return self.verdict

    def teardown(self, join_timeout=5.0):
        """Kill parked threads, close loops.  Returns True if the process is clean."""
        self.dead = True
        clean = True
        for t in self.ts:
            if t.st != DONE:
                t.sem.release()
        deadline = _real_monotonic() + join_timeout
        for t in self.ts:
            t.thread.join(max(0.0, deadline - _real_monotonic()))
            if t.thread.is_alive():
                clean = False
        for lp in self.loops:
            try:
                if not lp.is_closed() and not lp.is_running():
                    lp._sim_force_close()
            except Exception:
                clean = False
        self.loops.clear()
        return clean

    # ---- core ------------------------------------------------------------
    def _enabled(self):
        en = []
        for t in self.ts:
            if t.st == RUN:
                en.append(t)
            elif t.st == BLK and t.pred is not None:
                try:
                    ok = t.pred()
                except Exception:
                    ok = False
                if ok:
                    en.append(t)
        return en

    def _advance_time(self):
        dl = [t.deadline for t in self.ts if t.st == BLK and t.deadline is not None]
        if not dl:
            return False
        new = min(dl)
        if new > self.max_virtual:
            return False            # virtual-time horizon: periodic timers alone keep the execution 'alive'
        if new > self.now:
            self.now = new
        self.steps = 0
        self.time_advances += 1
        for t in self.ts:
            if t.st == BLK and t.deadline is not None and t.deadline <= self.now:
                t.timed_out = True
                t.st = RUN
                t.pred = None
                t.deadline = None
        return True

    def _finish(self, verdict):
        self.verdict = verdict
        self.blocked_at_end = [(t.name, str(t.tag), t.daemon) for t in self.ts if t.st == BLK]
        self.finished.set()

    def _pass_baton(self, me_, tag):
        """me_ gives up the baton (blocked or done); choose the next holder."""
        while True:
            en = self._enabled()
            if en:
                break
            if not self._advance_time():
                live = [t for t in self.ts if t.st == BLK and not t.daemon]
                horizon = any(t.deadline is not None for t in live)
                self._finish(('timebound' if horizon else 'deadlock') if live else None)
                return None
        nxt = self.strategy.pick(self, None, en, False)
        self._wake(nxt)
        self._record_switch(me_, nxt, tag)
        self.cur = nxt
        nxt.sem.release()
        return nxt

    def _record_switch(self, a, b, tag):
        self.switches.append((a.name, b.name, tag))
        if isinstance(tag, tuple):
            self.switch_lines.add(tag)

    @staticmethod
    def _wake(t):
        if t.st == BLK:
            t.st = RUN
            t.pred = None
            t.deadline = None

    def _park_forever(self, me_):
        me_.st = BLK
        me_.daemon = True
        me_.pred = None
        me_.deadline = None
        self.in_sched = False
        me_.sem.acquire()
        raise SchedKill()

    def yield_point(self, tag, forced=False):
        me_ = me()
        if me_ is None:
            return
        if self.dead:
            raise SchedKill()
        if me_ is not self.cur or self.in_sched:
            return
        self.in_sched = True
        try:
            self.steps += 1
            self.total_steps += 1
            me_.nyield += 1
            if self.hooks:
                h = self.hooks.pop((me_.name, me_.nyield), None)
                if h is not None:
                    self.in_sched = False
                    try:
                        h()
                    finally:
                        self.in_sched = True
            if self.steps > self.max_steps:
                self._finish('stepbound')
                self._park_forever(me_)
            en = self._enabled()
            if me_ not in en:
                en.append(me_)
            nxt = self.strategy.pick(self, me_, en, forced)
            if nxt is me_:
                return
            self._wake(nxt)
            self._record_switch(me_, nxt, tag)
            self.cur = nxt
            self.in_sched = False
            nxt.sem.release()
            me_.sem.acquire()
            if self.dead:
                raise SchedKill()
        finally:
            self.in_sched = False

    def block(self, pred=None, deadline=None, tag=None):
        """Block the caller.  True if woken by pred, False if the deadline passed."""
        me_ = me()
        if me_ is None:
            raise HarnessFault('block() from an unregistered thread')
        if self.dead:
            raise SchedKill()
        if me_ is not self.cur:
            raise HarnessFault(f'block() without the baton: {me_.name}')
        if pred is not None and pred():
            self.yield_point(tag)
            return True
        if deadline is not None and deadline <= self.now:
            self.yield_point(tag)
            return False
        me_.st = BLK
        me_.pred = pred
        me_.deadline = deadline
        me_.timed_out = False
        me_.tag = tag
        me_.nyield += 1
        self.in_sched = True
        try:
            self._pass_baton(me_, tag)
        finally:
            self.in_sched = False
        me_.sem.acquire()
        if self.dead:
            raise SchedKill()
        return not me_.timed_out

    def sleep(self, d):
        if d is None or d <= 0:
            # sleep(0) gives the CPU away.  If nobody else can run (the others are asleep until a deadline)
            # a spin-wait would hold virtual time still forever, which real time never does: let time pass
            # to the next deadline, as if the caller had spun until then.
            m = me()
            if m is not None and m is self.cur and not self.in_sched:
                if not any(t is not m for t in self._enabled()):
                    self._advance_time()
            self.yield_point('sleep0', forced=True)
            return
        self.block(None, self.now + d, 'sleep')

    def clock(self):
        """A read of time.time(): strictly increasing."""
        self.now += TICK
        return self.now

    def at(self, thread_name, k, fn):
        self.hooks[(thread_name, k)] = fn

    def signature(self):
        h = hashlib.blake2b(digest_size=8)
        for a, b, tag in self.switches:
            h.update(f'{a}>{b}@{tag};'.encode())
        return h.hexdigest()


# ---------------------------------------------------------------------------
# primitives (dual-mode: operated by an unregistered thread, or outside an
# execution, they behave like plain objects and never consult the scheduler)
# ---------------------------------------------------------------------------

class SimLock:
    def __init__(self):
        self._owner = None          # TS, or the string 'ext' for unregistered
        self._real = _real_Lock()   # used only outside executions

    def _sched(self):
        return CUR[0] if me() is not None else None

    def acquire(self, blocking=True, timeout=-1):
        if not blocking and timeout != -1:
            raise ValueError("can't specify a timeout for a non-blocking call")
        if timeout is not None and timeout < 0 and timeout != -1:
            raise ValueError('timeout value must be a non-negative number')
        s = self._sched()
        if s is None:
            if self._owner is None:
                self._owner = 'ext'
                return True
            if not blocking or timeout == 0:
                return False
            c = CUR[0]
            if c is not None:
                c.unregistered_ops += 1
            raise HarnessFault('sim lock contended from an unregistered thread')
        m = me()
        s.yield_point('lock.acquire')
        if self._owner is None:
            self._owner = m
            return True
        if not blocking:
            return False
        dl = None if timeout is None or timeout < 0 else s.now + timeout
        while self._owner is not None:
            if not s.block(lambda: self._owner is None, dl, 'lock'):
                return False
        self._owner = m
        return True

    def release(self):
        if self._owner is None:
            raise RuntimeError('release unlocked lock')
        self._owner = None
        s = self._sched()
        if s is not None:
            s.yield_point('lock.release')

    def locked(self):
        return self._owner is not None

    def __enter__(self):
        return self.acquire()

    def __exit__(self, *a):
        self.release()

    def _at_fork_reinit(self):
        self._owner = None


class SimRLock:
    def __init__(self):
        self._owner = None
        self._depth = 0

    def _ident(self):
        m = me()
        return m if m is not None else ('ext', threading.get_ident())

    def acquire(self, blocking=True, timeout=-1):
        if not blocking and timeout != -1:
            raise ValueError("can't specify a timeout for a non-blocking call")
        if timeout is not None and timeout < 0 and timeout != -1:
            raise ValueError('timeout value must be a non-negative number')
        who = self._ident()
        s = CUR[0] if me() is not None else None
        if s is not None:
            s.yield_point('rlock.acquire')
        if self._owner == who and self._owner is not None:
            self._depth += 1
            return True
        if self._owner is None:
            self._owner = who
            self._depth = 1
            return True
        if not blocking or (s is None and timeout == 0):
            return False
        if s is None:
            raise HarnessFault('sim rlock contended from an unregistered thread')
        dl = None if timeout is None or timeout < 0 else s.now + timeout
        while self._owner is not None:
            if not s.block(lambda: self._owner is None, dl, 'rlock'):
                return False
        self._owner = who
        self._depth = 1
        return True

    def release(self):
        who = self._ident()
        if self._owner is None or self._owner != who:
            raise RuntimeError('cannot release un-acquired lock')
        self._depth -= 1
        if self._depth == 0:
            self._owner = None
        s = CUR[0] if me() is not None else None
        if s is not None:
            s.yield_point('rlock.release')

    def __enter__(self):
        return self.acquire()

    def __exit__(self, *a):
        self.release()

    def _is_owned(self):
        return self._owner is not None and self._owner == self._ident()


class SimEvent:
    """threading.Event look-alike."""

    def __init__(self):
        self._flag = False

    def is_set(self):
        return self._flag

    isSet = is_set

    def set(self):
        self._flag = True
        s = CUR[0] if me() is not None else None
        if s is not None:
            s.yield_point('event.set')

    def clear(self):
        self._flag = False

    def wait(self, timeout=None):
        s = CUR[0] if me() is not None else None
        if s is None:
            end = None if timeout is None else _real_monotonic() + timeout
            while not self._flag and (end is None or _real_monotonic() < end):
                _real_sleep(0.0005)
            return self._flag
        if not self._flag:
            dl = None if timeout is None else s.now + timeout
            s.block(lambda: self._flag, dl, 'event.wait')
        else:
            s.yield_point('event.wait')
        return self._flag


class SimSemaphore:
    def __init__(self, value=1):
        if value < 0:
            raise ValueError('semaphore initial value must be >= 0')
        self._value = value

    def acquire(self, blocking=True, timeout=None):
        if not blocking and timeout is not None:
            raise ValueError("can't specify timeout for non-blocking acquire")
        s = CUR[0] if me() is not None else None
        if s is not None:
            s.yield_point('sem.acquire')
        if self._value > 0:
            self._value -= 1
            return True
        if not blocking:
            return False
        if s is None:
            raise HarnessFault('sim semaphore contended from an unregistered thread')
        dl = None if timeout is None else s.now + timeout
        while self._value <= 0:
            if not s.block(lambda: self._value > 0, dl, 'sem'):
                return False
        self._value -= 1
        return True

    def release(self, n=1):
        self._value += n
        s = CUR[0] if me() is not None else None
        if s is not None:
            s.yield_point('sem.release')

    def __enter__(self):
        return self.acquire()

    def __exit__(self, *a):
        self.release()


class SimBoundedSemaphore(SimSemaphore):
    def __init__(self, value=1):
        super().__init__(value)
        self._initial = value

    def release(self, n=1):
        if self._value + n > self._initial:
            raise ValueError('Semaphore released too many times')
        super().release(n)


class SimCondition:
    def __init__(self, lock=None):
        self._lock = lock if lock is not None else SimRLock()
        self._gen = 0
        self._pending = 0
        self.acquire = self._lock.acquire
        self.release = self._lock.release

    def __enter__(self):
        return self._lock.__enter__()

    def __exit__(self, *a):
        return self._lock.__exit__(*a)

    def wait(self, timeout=None):
        s = CUR[0] if me() is not None else None
        if s is None:
            raise HarnessFault('sim condition used from an unregistered thread')
        ticket = {'woken': False}
        self._waiters = getattr(self, '_waiters', [])
        self._waiters.append(ticket)
        # release fully (RLock may be nested)
        depth = 0
        if isinstance(self._lock, SimRLock):
            depth = self._lock._depth
            for _ in range(depth):
                self._lock.release()
        else:
            self._lock.release()
        dl = None if timeout is None else s.now + timeout
        ok = s.block(lambda: ticket['woken'], dl, 'cond.wait')
        if not ok and ticket in self._waiters:
            self._waiters.remove(ticket)
        if isinstance(self._lock, SimRLock):
            for _ in range(depth):
                self._lock.acquire()
        else:
            self._lock.acquire()
        return ok

    def wait_for(self, predicate, timeout=None):
        s = CUR[0]
        end = None if timeout is None else s.now + timeout
        r = predicate()
        while not r:
            rem = None if end is None else end - s.now
            if rem is not None and rem <= 0:
                break
            self.wait(rem)
            r = predicate()
        return r

    def notify(self, n=1):
        ws = getattr(self, '_waiters', [])
        for t in ws[:n]:
            t['woken'] = True
        del ws[:n]

    def notify_all(self):
        self.notify(len(getattr(self, '_waiters', [])))

    notifyAll = notify_all


class SimThread:
    """threading.Thread look-alike whose body runs as a registered sim thread."""
    _n = 0

    def __init__(self, group=None, target=None, name=None, args=(), kwargs=None, *, daemon=None):
        SimThread._n += 1
        self._target = target
        self._args = args
        self._kwargs = kwargs or {}
        self.name = name or f'SimThread-{SimThread._n}'
        self.daemon = bool(daemon)
        self._ts = None
        self._real = None

    def run(self):
        if self._target is not None:
            self._target(*self._args, **self._kwargs)

    def start(self):
        s = CUR[0] if me() is not None else None
        if s is None:
            self._real = threading.Thread(target=self.run, name=self.name, daemon=self.daemon)
            self._real.start()
            return
        s.yield_point('thread.start')
        self._ts = s.spawn(self.run, f'thr{len(s.ts)}', daemon=self.daemon)

    def is_alive(self):
        if self._real is not None:
            return self._real.is_alive()
        return self._ts is not None and self._ts.st != DONE

    def join(self, timeout=None):
        if self._real is not None:
            return self._real.join(timeout)
        s = CUR[0] if me() is not None else None
        if s is None or self._ts is None:
            return
        dl = None if timeout is None else s.now + timeout
        s.block(lambda: self._ts.st == DONE, dl, 'thread.join')


class SimFuture(cf.Future):
    def result(self, timeout=None):
        s = CUR[0] if me() is not None else None
        if s is None:
            return super().result(timeout)
        if not self.done():
            dl = None if timeout is None else s.now + timeout
            s.block(self.done, dl, 'future.result')
        else:
            s.yield_point('future.result')
        return super().result(0)

    def exception(self, timeout=None):
        s = CUR[0] if me() is not None else None
        if s is None:
            return super().exception(timeout)
        if not self.done():
            dl = None if timeout is None else s.now + timeout
            s.block(self.done, dl, 'future.exception')
        return super().exception(0)


class SimExecutor:
    """ThreadPoolExecutor look-alike whose workers are registered sim threads.

    Outside an execution it delegates to a real pool.
    """
    _count = 0

    def __init__(self, max_workers=None, *a, **k):
        SimExecutor._count += 1
        self._max = max_workers or 32
        self._pending = deque()
        self._futs = []
        self._running = 0
        self._shutdown = False
        self._n = 0
        self._real = None
        self.spawned = []           # TS of every worker ever started (thread census)

    def _reset(self):
        self._pending.clear()
        self._futs = []
        self._running = 0
        self._shutdown = False
        self._n = 0
        self.spawned = []

    def submit(self, fn, /, *a, **k):
        s = CUR[0] if me() is not None else None
        if s is None:
            if self._real is None:
                self._real = _real_TPE(self._max)
            return self._real.submit(fn, *a, **k)
        if self._shutdown:
            raise RuntimeError('cannot schedule new futures after shutdown')
        s.yield_point('pool.submit')
        f = SimFuture()
        self._futs.append(f)
        self._pending.append((f, fn, a, k))
        if self._running < self._max:
            self._running += 1
            self._n += 1
            ts = s.spawn(self._worker, f'pool{self._n}of{len(s.ts)}')
            self.spawned.append(ts)
        return f

    def _worker(self):
        try:
            while self._pending:
                f, fn, a, k = self._pending.popleft()
                if not f.set_running_or_notify_cancel():
                    continue
                try:
                    r = fn(*a, **k)
                except SchedKill:
                    raise
                except BaseException as e:     # noqa
                    f.set_exception(e)
                else:
                    f.set_result(r)
                del f, fn, a, k
        finally:
            self._running -= 1

    def shutdown(self, wait=True, *, cancel_futures=False):
        self._shutdown = True
        s = CUR[0] if me() is not None else None
        if s is None:
            if self._real is not None:
                self._real.shutdown(wait=wait, cancel_futures=cancel_futures)
            return
        if cancel_futures:
            while self._pending:
                self._pending.popleft()[0].cancel()
        if wait:
            s.block(lambda: self._running == 0 and not self._pending, None,
                    'pool.shutdown')

    def __enter__(self):
        return self

    def __exit__(self, *a):
        self.shutdown(wait=True)
        return False


class SimQueue:
    """queue.Queue look-alike."""

    def __init__(self, maxsize=0):
        self.maxsize = maxsize
        self._q = deque()
        self._unfinished = 0

    def qsize(self):
        return len(self._q)

    def empty(self):
        return not self._q

    def full(self):
        return 0 < self.maxsize <= len(self._q)

    def put(self, item, block=True, timeout=None):
        s = CUR[0] if me() is not None else None
        if s is not None:
            s.yield_point('queue.put')
        if self.full():
            if not block or s is None:
                raise _real_queue.Full
            dl = None if timeout is None else s.now + timeout
            while self.full():
                if not s.block(lambda: not self.full(), dl, 'queue.put'):
                    raise _real_queue.Full
        self._q.append(item)
        self._unfinished += 1

    def put_nowait(self, item):
        return self.put(item, block=False)

    def get(self, block=True, timeout=None):
        s = CUR[0] if me() is not None else None
        if s is not None:
            s.yield_point('queue.get')
        if not self._q:
            if not block or s is None:
                raise _real_queue.Empty
            dl = None if timeout is None else s.now + timeout
            while not self._q:
                if not s.block(lambda: bool(self._q), dl, 'queue.get'):
                    raise _real_queue.Empty
        return self._q.popleft()

    def get_nowait(self):
        return self.get(block=False)

    def task_done(self):
        if self._unfinished <= 0:
            raise ValueError('task_done() called too many times')
        self._unfinished -= 1

    def join(self):
        s = CUR[0] if me() is not None else None
        if s is None:
            return
        s.block(lambda: self._unfinished == 0, None, 'queue.join')


# ---- module proxies ---------------------------------------------------------

class _Proxy:
    def __init__(self, real, **over):
        object.__setattr__(self, '_real', real)
        object.__setattr__(self, '_over', over)

    def __getattr__(self, n):
        o = object.__getattribute__(self, '_over')
        if n in o:
            return o[n]
        return getattr(object.__getattribute__(self, '_real'), n)


def sim_sleep(d):
    s = CUR[0] if me() is not None else None
    if s is None:
        return _real_sleep(d)
    return s.sleep(d)


def sim_time():
    s = CUR[0] if me() is not None else None
    if s is None:
        return _real_time.time()
    return s.clock()


class FaultPlan:
    """OSError injection at the n-th call of open / lock / unlock / close."""

    def __init__(self, faults=()):
        # faults: iterable of (kind, index) with index counted from 0 per kind
        self.faults = set(tuple(f) for f in faults)
        self.count = {'open': 0, 'lock': 0, 'unlock': 0, 'close': 0}
        self.fired = []

    def hit(self, kind):
        i = self.count[kind]
        self.count[kind] = i + 1
        if (kind, i) in self.faults:
            self.fired.append((kind, i))
            return True
        return False


class OsState:
    """Bookkeeping shared by the os/fcntl proxies of one execution."""

    def __init__(self):
        self.gen = 0               # bumped by every unlock / close
        self.opened = 0
        self.closed = 0
        self.open_fds = set()
        self.plan = None


OSS: list = [OsState()]


def _sim_flock(fd, op):
    s = CUR[0] if me() is not None else None
    st = OSS[0]
    if op & _real_fcntl.LOCK_UN:
        if st.plan is not None and st.plan.hit('unlock'):
            raise OSError(errno.EIO, 'injected unlock failure')
        _real_fcntl.flock(fd, op)
        st.gen += 1
        if s is not None:
            s.yield_point('flock.un')
        return
    if s is not None:
        s.yield_point('flock')
    if st.plan is not None and st.plan.hit('lock'):
        raise OSError(errno.EIO, 'injected lock failure')
    if op & _real_fcntl.LOCK_NB or s is None:
        return _real_fcntl.flock(fd, op)
    while True:
        try:
            return _real_fcntl.flock(fd, op | _real_fcntl.LOCK_NB)
        except OSError as e:
            if e.errno not in (errno.EAGAIN, errno.EWOULDBLOCK):
                raise
        g = st.gen
        s.block(lambda: st.gen != g, None, 'flock.wait')


def _sim_os_open(path, flags, mode=0o777, *a, **k):
    st = OSS[0]
    if st.plan is not None and st.plan.hit('open'):
        raise OSError(errno.EMFILE, 'injected open failure')
    fd = _real_os.open(path, flags, mode, *a, **k)
    st.opened += 1
    st.open_fds.add(fd)
    return fd


def _sim_os_close(fd):
    st = OSS[0]
    inject = st.plan is not None and st.plan.hit('close')
    _real_os.close(fd)           # Linux closes the descriptor even when close() fails
    st.closed += 1
    st.open_fds.discard(fd)
    st.gen += 1
    if inject:
        raise OSError(errno.EIO, 'injected close failure')


def make_proxies():
    return {
        'threading': _Proxy(threading, Lock=SimLock, RLock=SimRLock, Event=SimEvent, Semaphore=SimSemaphore,
                            BoundedSemaphore=SimBoundedSemaphore, Condition=SimCondition, Thread=SimThread),
        'time': _Proxy(_real_time, sleep=sim_sleep, time=sim_time),
        'queue': _Proxy(_real_queue, Queue=SimQueue),
        'fcntl': _Proxy(_real_fcntl, flock=_sim_flock),
        'os': _Proxy(_real_os, open=_sim_os_open, close=_sim_os_close),
    }


_installed = {}       # module -> {name: original}
_pools = []           # SimExecutor instances planted as module globals
_lock_tables = []     # dict globals holding locks


def install(mod):
    """Identity scan of a module namespace: swap blocking primitives for sim ones."""
    if mod in _installed:
        return _installed[mod]
    px = make_proxies()
    orig = {}
    for name, val in list(vars(mod).items()):
        new = None
        if val is threading:
            new = px['threading']
        elif val is _real_time:
            new = px['time']
        elif val is _real_queue:
            new = px['queue']
        elif val is _real_fcntl:
            new = px['fcntl']
        elif val is _real_os:
            new = px['os']
        elif val is _real_Lock:
            new = SimLock
        elif val is _real_RLock:
            new = SimRLock
        elif val is threading.Event:
            new = SimEvent
        elif val is threading.Semaphore:
            new = SimSemaphore
        elif val is threading.BoundedSemaphore:
            new = SimBoundedSemaphore
        elif val is threading.Condition:
            new = SimCondition
        elif val is threading.Thread:
            new = SimThread
        elif val is _real_sleep:
            new = sim_sleep
        elif val is _real_time.time:
            new = sim_time
        elif val is _real_TPE:
            new = SimExecutor
        elif val is _real_queue.Queue:
            new = SimQueue
        elif val is _real_fcntl.flock:
            new = _sim_flock
        elif isinstance(val, _real_TPE):
            new = SimExecutor(getattr(val, '_max_workers', 32))
            _pools.append(new)
        elif isinstance(val, _LockType):
            new = SimLock()
        elif isinstance(val, _RLockType):
            new = SimRLock()
        elif isinstance(val, (dict, set, list)) and not val and not name.startswith('__'):
            # module-level registry that is empty at import time (lock tables, sets of ids, ...):
            # emptied again between executions, because threads killed at teardown skip their clean-up
            _lock_tables.append(val)
        if new is not None:
            orig[name] = val
            setattr(mod, name, new)
    _installed[mod] = orig
    return orig


def reset_between_executions():
    for p in _pools:
        p._reset()
    for d in _lock_tables:
        d.clear()
    OSS[0] = OsState()


# ---- event loop ------------------------------------------------------------

class _SimSelector:
    def __init__(self, loop, real):
        self.loop = loop
        self.real = real

    def __getattr__(self, n):
        return getattr(self.real, n)

    def select(self, timeout=None):
        loop = self.loop
        s = CUR[0] if me() is not None else None
        if s is None:
            if CUR[0] is not None and CUR[0].dead:
                raise SchedKill()
            return self.real.select(timeout)
        if timeout is not None and timeout <= 0:
            s.yield_point('loop.iter')
        else:
            dl = None if timeout is None else s.now + timeout
            s.block(lambda: loop._sim_wake, dl, 'loop.select')
        loop._sim_wake = False
        return self.real.select(0)


class SimLoop(asyncio.SelectorEventLoop):
    """Stock selector loop; only the clock and the blocking select are virtual."""

    _seq = 0

    def __init__(self):
        super().__init__()
        self._sim_wake = False
        self._sim_runners = 0
        self._sim_max_runners = 0
        self._selector = _SimSelector(self, self._selector)
        self._clock_resolution = 1e-9
        SimLoop._seq += 1
        self.sim_name = f'loop{SimLoop._seq}'
        s = CUR[0]
        if s is not None:
            s.loops.append(self)
            s.nloops += 1
            self.sim_name = f'L{s.nloops}'
        self.on_stop = None           # callable(loop) run with no yield point in between

    def time(self):
        s = CUR[0]
        return s.now if s is not None else _real_monotonic()

    def _write_to_self(self):
        self._sim_wake = True
        super()._write_to_self()

    def run_forever(self):
        self._sim_runners += 1
        if self._sim_runners > self._sim_max_runners:
            self._sim_max_runners = self._sim_runners
            sc = CUR[0]
            if sc is not None and self._sim_runners > sc.max_runners_seen:
                sc.max_runners_seen = self._sim_runners
        try:
            return super().run_forever()
        finally:
            self._sim_runners -= 1
            cb = self.on_stop
            if cb is not None:
                s = CUR[0]
                if s is None or not s.dead:
                    cb(self)

    def close(self):
        super().close()
        # a closed loop is the harness's no longer: without this reference an abandoned loop (and the
        # pending coroutines that only it keeps alive) can become garbage *during* the execution
        s = CUR[0]
        if s is not None and self.is_closed():
            try:
                s.loops.remove(self)
            except ValueError:
                pass

    def _sim_force_close(self):
        try:
            self._selector = self._selector.real if isinstance(self._selector, _SimSelector) else self._selector
            # drop whatever is still scheduled; nobody is going to run it
            self._ready.clear()
            self._scheduled.clear()
            super().close()
        except Exception:
            pass


class SimPolicy(asyncio.DefaultEventLoopPolicy):
    def new_event_loop(self):
        if CUR[0] is not None and me() is not None:
            return SimLoop()
        return super().new_event_loop()


# ---- LINE instrumentation ----------------------------------------------------

TOOL = 3
_instrumented = set()
_cb_registered = [False]


def _line_cb(code, line):
    s = CUR[0]
    if s is None or not s.lines:
        return
    t = getattr(_local, 'ts', None)
    if t is None or getattr(_local, 'sched', None) is not s:
        return
    if s.dead:
        raise SchedKill()
    key = (code.co_qualname, line)
    lc = s.line_cov
    lc[key] = lc.get(key, 0) + 1
    if t is s.cur and not s.in_sched:
        ld = s.line_delays
        if ld:
            # injected *timed* delay (a long preemption): the thread sleeps in virtual time right
            # before executing this line, so timers of other threads can fire meanwhile
            for d in ld:
                if t.name.startswith(d['thread']) and code.co_qualname.startswith(d['qual']):
                    d['seen'] = d.get('seen', 0) + 1
                    if d['seen'] == d['nth']:
                        s.delays_fired.append((t.name, key, d.get('d', 0), s.now))
                        if d.get('fn') is not None:
                            d['fn']()            # e.g. a cyclic-GC run at exactly this line, in this thread
                        else:
                            s.sleep(d['d'])
        s.yield_point(key)


def module_code_objects(mod):
    fn = mod.__file__
    cos = set()

    def walk(co):
        if co in cos or co.co_filename != fn:
            return
        cos.add(co)
        for c in co.co_consts:
            if isinstance(c, types.CodeType):
                walk(c)

    def visit(obj, depth=0):
        if isinstance(obj, types.FunctionType):
            walk(obj.__code__)
        elif isinstance(obj, (staticmethod, classmethod)):
            visit(obj.__func__, depth)
        elif isinstance(obj, property):
            for f in (obj.fget, obj.fset, obj.fdel):
                if f:
                    visit(f, depth)
        elif hasattr(obj, '__wrapped__') and isinstance(getattr(obj, '__wrapped__', None), types.FunctionType):
            visit(obj.__wrapped__, depth)
        elif isinstance(obj, type) and depth < 2 and getattr(obj, '__module__', None) == mod.__name__:
            for v in vars(obj).values():
                visit(v, depth + 1)

    for v in list(vars(mod).values()):
        visit(v)
    # whatever wraps a function in a way the walk above does not know (functools.cached_property / partialmethod /
    # singledispatchmethod keep it in `.func`, other descriptors elsewhere): every live function object defined in the file
    import gc
    for o in gc.get_objects():
        if isinstance(o, types.FunctionType) and getattr(o.__code__, 'co_filename', None) == fn:
            walk(o.__code__)
    return cos


def instrument(mod):
    mon = sys.monitoring
    if not _cb_registered[0]:
        try:
            mon.use_tool_id(TOOL, 'verif-simrt')
        except ValueError:
            pass
        mon.register_callback(TOOL, mon.events.LINE, _line_cb)
        _cb_registered[0] = True
    n = 0
    for co in module_code_objects(mod):
        if co not in _instrumented:
            mon.set_local_events(TOOL, co, mon.events.LINE)
            _instrumented.add(co)
            n += 1
    return n


# ---- one execution -----------------------------------------------------------

_policy_set = [False]
_exec_count = [0]


def prepare(modules):
    """Once per process: swap primitives, enable LINE events, set the loop policy."""
    for m in modules:
        install(m)
        instrument(m)
    if not _policy_set[0]:
        asyncio.set_event_loop_policy(SimPolicy())
        _policy_set[0] = True


class Result:
    __slots__ = ('verdict', 'log', 'sched', 'clean', 'blocked', 'thread_errors', 'cache', 'extra',
                 'signature', 'steps', 'switches', 'now')


def execute(main, strategy=None, max_steps=200000, lines=True, watchdog=60.0,
            gc_every=20, hooks=None, pre=None, max_virtual=None):
    """Run `main(sched)` as the first registered thread of a fresh execution."""
    reset_between_executions()
    s = Sched(strategy, max_steps=max_steps, lines=lines)
    if max_virtual is not None:
        s.max_virtual = max_virtual
    if hooks:
        for (tn, k), fn in hooks.items():
            s.at(tn, k, fn)
    gc.disable()
    CUR[0] = s
    if pre is not None:
        pre(s)
    try:
        v = s.run(lambda: main(s), watchdog)
    finally:
        r = Result()
        r.verdict = s.verdict
        r.log = s.log
        s.log = []                 # late writers (unwinding threads) go nowhere
        r.blocked = list(s.blocked_at_end)
        r.signature = s.signature()
        r.steps = s.total_steps
        r.switches = len(s.switches)
        r.now = s.now
        r.sched = s
        if s.verdict == 'watchdog':
            r.clean = False
            s.dead = True
        else:
            r.clean = s.teardown()
        r.thread_errors = list(s.thread_errors)
        CUR[0] = None
        _exec_count[0] += 1
        if _exec_count[0] % gc_every == 0:
            gc.collect()
    return r
