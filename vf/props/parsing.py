"""C19 - parse_to_dict against by-construction expectations, with a no-evaluation
tripwire and an audit hook (Engine D)."""
from __future__ import annotations

import builtins
import itertools
import random
import sys

from vf.core import Check, CaseResult

KEEP = object()


class Tripwire:
    hits: list = []

    def _hit(self, what):
        Tripwire.hits.append(what)
        return self

    def __call__(self, *a, **k):
        return self._hit('call')

    def __getattr__(self, n):
        if n.startswith('__') and n.endswith('__'):
            raise AttributeError(n)
        return self._hit('attr:' + n)

    def __add__(self, o):
        return self._hit('add')

    __radd__ = __add__

    def __getitem__(self, k):
        return self._hit('getitem')

    def __iter__(self):
        self._hit('iter')
        return iter(())

    def __bool__(self):
        self._hit('bool')
        return True


# (text, expected value) - expected KEEP means "not a literal: stays the text itself"
LITERALS = [
    ("1", 1), ("-1", -1), ("+1", 1), ("0", 0), ("1.5", 1.5), ("1e3", 1000.0), ("1_000", 1000), ("0x10", 16),
    ("1+2j", 1 + 2j), ("-1-2j", -1 - 2j), ("'a'", 'a'), ('"a"', 'a'), ("'a=b'", 'a=b'), ("'it''s'", 'its'),
    ("'q\\'x'", "q'x"), ('"tab\\t"', 'tab\t'), ("''", ''), ("(1, 2)", (1, 2)), ("(1,)", (1,)), ("[1, 'x']", [1, 'x']),
    ("{'k': 1}", {'k': 1}), ("{1, 2}", {1, 2}), ("None", None), ("True", True), ("False", False), ("b'x'", b'x'),
    ("...", Ellipsis), (" 1", 1), ("1 ", 1), ("\t2", 2), ("()", ()), ("[]", []), ("{}", {}), ("set()", set()),
    ("[(1, 'a'), {'b': [2.5, None]}]", [(1, 'a'), {'b': [2.5, None]}]), ("'x:y'", 'x:y'), ("{'a': '=='}", {'a': '=='}),
    ("-1.5e-3", -1.5e-3), ("(1, (2, (3,)))", (1, (2, (3,)))),
    # blank lines around an expression are not part of it in Python's grammar
    ("\n1", 1), ("1\n", 1),
    # tuples do not need parentheses; a comment is not part of the expression
    ("1, 2", (1, 2)), ("2,", (2,)), ("'a', [1]", ('a', [1])), ("1 # one", 1), ("(1, 2)  # pair", (1, 2)),
    (".5", 0.5), ("5.", 5.0), ("1_000.5", 1000.5), ("0b101", 5), ("0o17", 15), ("1E2", 100.0), ("-0", 0), ("0_0", 0),
]
NONLITERALS = [
    "abc", "a b", "", " ", "f()", "a.b", "1+2", "2*3", "1 if 1 else 2", "__import__('os')", "TRIP()", "TRIP.x", "[TRIP]",
    "TRIP+1", "(TRIP,)", "{TRIP: 1}", "TRIP[0]", "[x for x in TRIP]", "f'{1}'", "f'{TRIP}'", "x=1", "lambda: 1", "[1", "'a",
    "1 2", "not True", "-'a'", "{*()}", "a=b=c", "k:v", "a->b", "open('/etc/passwd')", "exec('1')", "1 == 1", "a==b",
    "__import__('os').system('true')", "print(1)", "list()", "dict(a=1)", "1;2", "yield", "True and False", "[1, f()]",
    "{'k': TRIP()}", "(1, __import__('os'))", "*a", "@x", "0o8", "1__0", "'a' 'b'x",
    # accepted by int() / float() but not Python literals
    "007", "-01", "0_7", "inf", "-inf", "+inf", "nan", "Infinity", "-Infinity", "NaN", "1e", "\u0661\u0662", "-\u0663", "١.٥",
    "1_", "_1", "0x", "1 000", "1,000.5.", "# only a comment", "(3", "4)", "", "1, 2 3",
]
FRAGMENTS = [(t, v) for t, v in LITERALS] + [(t, KEEP) for t in NONLITERALS]
SEPS = ['=', ':', '==', '->']


def exp_value(text, val):
    return text if val is KEEP else val


def canon(x):
    """type-aware canonical form (1, 1.0 and True must not compare equal)"""
    if isinstance(x, (list, tuple)):
        return (type(x).__name__, tuple(canon(i) for i in x))
    if isinstance(x, (set, frozenset)):
        return (type(x).__name__, tuple(sorted((canon(i) for i in x), key=repr)))
    if isinstance(x, dict):
        return ('dict', tuple((canon(k), canon(v)) for k, v in x.items()))
    return (type(x).__name__, repr(x))


POISON = '<<poisoned-by-the-harness>>'


def poison(x, depth=0):
    """Mutate every mutable container of a returned value: if the library hands the same
    object out again (a cache of parsed literals, aliasing inside one result), the next
    result no longer equals the literal its text denotes."""
    if depth > 4:
        return
    if isinstance(x, list):
        for i in x:
            poison(i, depth + 1)
        x.append(POISON)
    elif isinstance(x, dict):
        for i in list(x.values()):
            poison(i, depth + 1)
        x[POISON] = POISON
    elif isinstance(x, set):
        x.add(POISON)
    elif isinstance(x, tuple):
        for i in x:
            poison(i, depth + 1)


def hashable(v):
    try:
        hash(v)
        return True
    except TypeError:
        return False


class Audit:
    on = False
    events: list = []
    installed = False

    @classmethod
    def hook(cls, ev, args):
        if cls.on and ev in ('exec', 'import', 'os.system', 'subprocess.Popen', 'open', 'os.exec', 'os.posix_spawn',
                             'os.fork', 'socket.connect', 'ctypes.dlopen'):
            cls.events.append(ev)


class C19(Check):
    pid = 'C19'
    budget = {'quick': 30.0, 'thorough': 330.0}
    assumptions = [
        'expected dictionaries are built from (text, value) fragment pairs known by construction; merging of duplicate keys '
        'uses Python\'s own dict on the expected pairs, never parse_to_dict or ast.literal_eval',
        'no-evaluation is observed through a Tripwire object reachable as a builtin and as a module global of aiuti.parsing, '
        'plus a sys.addaudithook recording exec/import/open/os.system/subprocess events raised during the call '
        '(the `compile` event that ast.literal_eval legitimately raises is not one of them)',
        'items that are tuples of length != 2 are outside the statement and not generated',
    ]
    rule = ('cases = item lists of length 0-4 over ~95 literal and non-literal fragments (as keys and as values), presented as '
            'mapping, pair list and key<sep>value strings, separators = : == ->, parse_keys on/off; exhaustive for every '
            '(key fragment, value fragment) pair in each shape, sampled for longer lists; plus missing-separator strings, '
            'non-string pass-through values and custom parsers that raise (Exception subclasses, a BaseException subclass, StopIteration), '
            'one-shot item iterables, lists mixing pairs and strings, reentrant calls (also one that fails); non-trivial = the case contains a non-literal, a value '
            'containing the separator, a duplicate key or a tripwire reference; distinct = distinct cases')

    def setup(self):
        import aiuti.parsing as P
        self.P = P
        self.f = P.parse_to_dict
        self.trip = Tripwire()
        builtins.TRIP = self.trip
        P.TRIP = self.trip
        if not Audit.installed:
            sys.addaudithook(Audit.hook)
            Audit.installed = True

    def cases(self, tier, seed):
        nf = len(FRAGMENTS)
        for ki in range(nf):
            for vi in range(nf):
                yield {'items': [[ki, vi]], 'sep': SEPS[(ki + vi) % len(SEPS)], 'pk': (ki * 7 + vi) % 2 == 0}
        for vi in range(nf):
            for sep in SEPS:
                for pk in (True, False):
                    yield {'items': [[0, vi]], 'sep': sep, 'pk': pk}
        yield {'items': [], 'sep': '=', 'pk': True}
        for kind in ('nosep', 'nosep_later', 'passthrough', 'parser_valueerror', 'parser_keyerror', 'parser_custom',
                     'parser_typeerror', 'parser_signal', 'parser_stopiteration', 'mapping_keys', 'reentrant_items', 'reentrant_parser'):
            for sep in SEPS:
                yield {'special': kind, 'sep': sep}
        rng = random.Random(seed * 131 + 9)
        n = 60000 if tier == 'quick' else 1500000
        for _ in range(n):
            ln = rng.randint(2, 4)
            items = []
            for _ in range(ln):
                if items and rng.random() < 0.2:
                    items.append([items[0][0], rng.randrange(nf)])      # duplicate key on purpose
                else:
                    items.append([rng.randrange(nf), rng.randrange(nf)])
            yield {'items': items, 'sep': rng.choice(SEPS), 'pk': rng.random() < 0.6}

    def call(self, *a, **k):
        Tripwire.hits.clear()
        Audit.events.clear()
        Audit.on = True
        try:
            try:
                return ('ok', self.f(*a, **k))
            except BaseException as e:     # noqa
                return ('exc', e)
        finally:
            Audit.on = False

    def check_no_eval(self, res, what):
        if Tripwire.hits:
            res.violate('C19:evaluated-code', 'the tripwire object was called / accessed: input text was evaluated',
                        hits=list(Tripwire.hits), **what)
        if Audit.events:
            res.violate('C19:audit-event', 'an exec/import/open/process audit event was raised while parsing',
                        events=list(Audit.events), **what)

    def run_special(self, case, res):
        kind, sep = case['special'], case['sep']
        st = res.stats
        st[f'special_{kind}'] += 1
        res.nontrivial = True
        if kind in ('nosep', 'nosep_later'):
            items = ['novalue'] if kind == 'nosep' else [f'a{sep}1', 'b']
            r = self.call(items, sep=sep)
            if r[0] != 'exc' or not isinstance(r[1], ValueError):
                res.violate('C19:missing-separator', 'a string item without the separator did not raise ValueError', got=repr(r))
        elif kind == 'passthrough':
            o = object()
            lst = [1, 2]
            pairs = [('a', 5), ('b', lst), ('c', o), ('d', None), (7, '8'), ((1, 2), b'x')]
            for shape in (pairs, dict(pairs)):
                r = self.call(shape, sep=sep)
                if r[0] != 'ok':
                    res.violate('C19:passthrough', 'non-string values made parse_to_dict fail', got=repr(r))
                    continue
                d = r[1]
                if not (d.get('a') == 5 and d.get('b') is lst and d.get('c') is o and d.get('d') is None
                        and d.get(7) == 8 and d.get((1, 2)) == b'x' and len(d) == 6):
                    res.violate('C19:passthrough', 'a non-string value or key was altered', got=repr(d))
        elif kind.startswith('parser_'):
            excs = {'parser_valueerror': ValueError, 'parser_keyerror': KeyError, 'parser_typeerror': TypeError,
                    'parser_custom': type('Custom', (Exception,), {}),
                    # "keys or values which fail to parse will be retained as is": whatever class the parser fails with
                    'parser_signal': type('Signal', (BaseException,), {}), 'parser_stopiteration': StopIteration}
            ex = excs[kind]
            seen = []

            def parser(x):
                seen.append(x)
                if x in ('1', 'k'):
                    raise ex(x)
                return ('parsed', x)
            # the same parser as a plain function and as callables that are not functions (no __name__, no __qualname__,
            # no __code__): functools.partial, an instance with __call__ (with __slots__: no __dict__ either), a bound method
            import functools

            class CallableObj:
                __slots__ = ()

                def __call__(self, x):
                    return parser(x)

                def meth(self, x):
                    return parser(x)
            forms = {'function': parser, 'partial': functools.partial(parser), 'instance': CallableObj(),
                     'bound_method': CallableObj().meth, 'partial_kw': functools.partial(lambda x, tag=None: parser(x), tag=1)}
            for form, pf in forms.items():
                st[f'parser_form_{form}'] += 1
                r = self.call([f'k{sep}1', f'j{sep}2'], sep=sep, parse=pf)
                want = {'k': '1', ('parsed', 'j'): ('parsed', '2')}
                if r[0] != 'ok' or r[1] != want:
                    res.violate('C19:custom-parser', 'a parser failure did not keep the original string', parser_form=form,
                                got=repr(r), want=repr(want))
                r = self.call([f'k{sep}1'], sep=sep, parse=pf, parse_keys=False)
                if r[0] != 'ok' or r[1] != {'k': '1'}:
                    res.violate('C19:custom-parser', 'parse_keys=False with a failing parser', parser_form=form, got=repr(r))
        elif kind == 'reentrant_items':
            # the item generator of one call makes another call with other settings before yielding more
            f = self.f
            other = {':': '=', '=': ':', '==': '->', '->': '=='}[sep]
            inner = []

            def items():
                yield f'a{sep}1'
                inner.append(f([f'x{other}[1, 2]', f'y{other}zz'], sep=other, parse_keys=False))
                yield f'"b"{sep}(2,)'
                inner.append(f({'q': '3'}, parse=lambda t: ('custom', t)))
                yield f'c{sep}d{other}e'
            r = self.call(items(), sep=sep)
            want = {'a': 1, 'b': (2,), 'c': 'd' + other + 'e'}
            if r[0] != 'ok' or canon(r[1]) != canon(want):
                res.violate('C19:reentrant-call', 'a call made while another call was consuming its items changed that call\'s result',
                            got=repr(r)[:200], want=repr(want))
            if inner != [{'x': [1, 2], 'y': 'zz'}, {('custom', 'q'): ('custom', '3')}]:
                res.violate('C19:reentrant-call', 'the inner calls returned something else', got=repr(inner)[:200])
        elif kind == 'reentrant_parser':
            f = self.f
            other = {':': '=', '=': ':', '==': '->', '->': '=='}[sep]

            def parser(t):
                if t.startswith('{') and other in t:
                    return f(t[1:-1].split(';'), sep=other)
                import ast as _ast
                return _ast.literal_eval(t)
            # (the second value makes the nested call fail - no separator in 'plain' - so the parser fails and the string stays)
            bad = f'{{a{other}1;plain}}'
            r = self.call([f'outer{sep}{{a{other}1;b{other}"x"}}', f'bad{sep}{bad}', f'n{sep}2', f'm{sep}{{k{other}(1,)}}',
                           f'"z"{sep}3', f'w{sep}p{other}q'], sep=sep, parse=parser)
            want = {'outer': {'a': 1, 'b': 'x'}, 'bad': bad, 'n': 2, 'm': {'k': (1,)}, 'z': 3, 'w': f'p{other}q'}
            if r[0] != 'ok' or canon(r[1]) != canon(want):
                res.violate('C19:reentrant-call', 'a parser that itself uses parse_to_dict changed the outer call\'s result',
                            got=repr(r)[:200], want=repr(want))
        else:
            class M(dict):
                pass
            m = M({'1': '2', 'x': "'y'"})
            r = self.call(m, sep=sep)
            if r[0] != 'ok' or canon(r[1]) != canon({1: 2, 'x': 'y'}):
                res.violate('C19:mapping', 'a mapping was not converted through its items()', got=repr(r))
        self.check_no_eval(res, {'special': kind})
        res.sample = {'special': kind, 'sep': sep}

    def run_case(self, case):
        res = CaseResult()
        st = res.stats
        if 'special' in case:
            self.run_special(case, res)
            if res.nontrivial:
                st['nontrivial'] += 1
            return res
        sep, pk = case['sep'], case['pk']
        frs = [(FRAGMENTS[k], FRAGMENTS[v]) for k, v in case['items']]
        # expected pairs by construction
        exp_pairs = []
        unhashable = False
        for (kt, kv), (vt, vv) in frs:
            key = exp_value(kt, kv) if pk else kt
            if not hashable(key):
                unhashable = True
            exp_pairs.append((key, exp_value(vt, vv)))
        expected = None if unhashable else dict(exp_pairs)
        shapes = {'pairs': [(kt, vt) for (kt, _), (vt, _) in frs]}
        if len({kt for (kt, _), _ in frs}) == len(frs):
            shapes['mapping'] = {kt: vt for (kt, _), (vt, _) in frs}
        if all(sep not in kt for (kt, _), _ in frs):
            shapes['strings'] = [kt + sep + vt for (kt, _), (vt, _) in frs]
        if 'strings' in shapes and len(frs) >= 2:
            # pairs and strings mixed in one list: still one item after the other (the last of equal keys wins)
            shapes['mixed'] = [p_ if i % 2 == 0 else s_ for i, (p_, s_) in enumerate(zip(shapes['pairs'], shapes['strings']))]
            shapes['mixed_other_way'] = [s_ if i % 2 == 0 else p_ for i, (p_, s_) in enumerate(zip(shapes['pairs'], shapes['strings']))]
        # the same items as one-shot iterables (a generator, an iterator, a map object): consumed exactly once
        pick = (len(frs) + case['items'][0][0] if case['items'] else 0) % 3
        if pick == 0:
            shapes['pairs_generator'] = ((k, v) for k, v in list(shapes['pairs']))
        elif pick == 1 and 'strings' in shapes:
            shapes['strings_iterator'] = iter(list(shapes['strings']))
        elif pick == 2:
            shapes['pairs_map'] = map(tuple, [list(p_) for p_ in shapes['pairs']])
        results = {}
        for name, shape in shapes.items():
            r = self.call(shape, sep=sep, parse_keys=pk)
            st['calls'] += 1
            st[f'shape_{name}'] += 1
            self.check_no_eval(res, {'shape': name, 'items': repr(shape)[:200]})
            if unhashable:
                if not (r[0] == 'exc' and isinstance(r[1], TypeError)):
                    res.violate('C19:unhashable-key', 'an unhashable parsed key did not raise TypeError', got=repr(r)[:200])
                continue
            if r[0] != 'ok':
                res.violate(f'C19:raised:{type(r[1]).__name__}', 'parse_to_dict raised on valid input',
                            shape=name, items=repr(shape)[:300], sep=sep, exc=repr(r[1])[:200])
                continue
            results[name] = r[1]
            if type(r[1]) is not dict or canon(r[1]) != canon(expected):
                res.violate(f'C19:wrong-result:{name}', 'the returned dictionary differs from the expected one',
                            items=repr(shape)[:300], sep=sep, parse_keys=pk, got=repr(r[1])[:300], expected=repr(expected)[:300])
        names = list(results)
        for a, b in zip(names, names[1:]):
            if canon(results[a]) != canon(results[b]):
                res.violate('C19:shapes-disagree', 'the same pairs given in two shapes produced different dictionaries',
                            shapes=[a, b])
        # aliasing inside one result: two values that are distinct literals in the input must be distinct objects
        for name, d in results.items():
            vals = [v for v in d.values() if isinstance(v, (list, dict, set))]
            if len({id(v) for v in vals}) < len(vals):
                res.violate('C19:aliased-values', 'two values of one result are the same mutable object', shape=name)
        for d in results.values():
            for v in list(d.values()):
                poison(v)
            st['results_poisoned'] += 1
        nonlit = any(kv is KEEP or vv is KEEP for (_, kv), (_, vv) in frs)
        sepin = any(sep in vt for _, (vt, _) in frs)
        dup = expected is not None and len(expected) < len(frs)
        trip = any('TRIP' in kt or 'TRIP' in vt or '__import__' in vt or '__import__' in kt for (kt, _), (vt, _) in frs)
        if nonlit:
            st['with_nonliteral'] += 1
        if sepin and 'strings' in shapes:
            st['value_contains_separator_in_string_shape'] += 1
        if dup:
            st['duplicate_keys'] += 1
        if trip:
            st['tripwire_or_import_texts'] += 1
        if unhashable:
            st['unhashable_keys'] += 1
        res.nontrivial = nonlit or sepin or dup or trip
        if res.nontrivial:
            st['nontrivial'] += 1
            res.sample = {'shapes': {k: repr(v)[:200] for k, v in shapes.items() if isinstance(v, (list, dict))}, 'sep': sep, 'parse_keys': pk,
                          'expected': repr(expected)[:200]}
        return res

    def floors(self, tier):
        k = 1 if tier == 'quick' else 20
        return {'nontrivial': 20000 * k, 'value_contains_separator_in_string_shape': 2000 * k, 'duplicate_keys': 3000 * k,
                'tripwire_or_import_texts': 5000 * k, 'unhashable_keys': 1000 * k, 'shape_strings': 10000 * k,
                'shape_pairs_generator': 3000 * k, 'shape_pairs_map': 3000 * k, 'shape_strings_iterator': 3000 * k,
                'shape_mapping': 10000 * k}

    def extra_evidence(self, tier, agg):
        return {'fragments': len(FRAGMENTS), 'exhaustive': False,
                'exhaustive_note': 'every (key fragment, value fragment) single-item list in every applicable shape, and every '
                                   'value fragment x separator x parse_keys, enumerated completely; longer lists sampled'}


def get_check(pid):
    return C19()
