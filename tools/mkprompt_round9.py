import json, sys, subprocess, os
props = {json.loads(l)['id']: json.loads(l) for l in open('/verif/properties.jsonl')}
THEMES = '''## What kind of changes (round 9)
Earlier rounds already produced: deletions / loosened conditions, new caches / fast paths / timers, multi-step histories, cooperating sites, fork / GC / descriptor reuse, boundary-wrong bug fixes, exception-class boundaries, look-alike API substitutions, leaking per-object state, weak references / finalizers, re-entrancy, unusual user-object protocols, clocks, two helpers used together, task factories / contextvars / cancelling() counts / shields, failures inside clean-up loops, thresholds of chunking optimisations (256 / 512 entries), second life after close, partial progress. Do something DIFFERENT this time. Write TWO changes, each using a different one of these themes:
  (p) *mixed entry points of one object*: the same object driven through several of its public paths in one history (for example call + await_ + map + amap + wait; acquire + with + acquire_ctx + release(force=True); a batcher called with and without key=; positional and keyword spellings; sync and async bridges nested) where one path's bookkeeping confuses another path, while each path alone is fine;
  (q) *ordering among equals*: which of several simultaneously ready parties goes first - FIFO among waiters, ties between a timer and an arrival, a newcomer overtaking parked parties, one party starved while others keep arriving (show it as a bounded-progress or ordering violation the property states);
  (r) *accounting drift*: a counter, level, semaphore or set that ends up off by one after a rare path (double decrement, missed increment, entry removed twice, slot released by the wrong party) and only bites after the path was taken and things went on - the second or third time round;
  (s) *fidelity of what is handed over*: the exception or value reaching the user is a copy / re-created / wrapped / chained / truncated / stringified version of the one produced (identity, type, args), or a container is handed over by reference and later mutated by the library, where the property demands the very outcome;
  (t) *edge inputs of ordinary types*: one-shot iterators vs re-iterable containers, empty inputs in the middle of a history, bytes vs str vs Path, bool-as-int, negative / zero / infinite / NaN / very large numeric options, the same object submitted twice.
Each change should look like something a maintainer could merge after a quick review (give it an honest-looking comment or docstring), be small (typically 5-40 changed lines), and be such that a randomized stress test with *typical* inputs would probably not notice it: say precisely what rare input, schedule, fault or history it needs.
Do not merely revert or weaken the mechanism the property statement describes in an obvious way, and do not special-case magic values. The violation your demo shows must be a violation of the property AS STATED, inside its "quantified over" range - read that range carefully; a misbehaviour outside it does not count.
'''
def prompt(pid):
    p = props[pid]; wt = f'/tmp/seed/{pid}'
    return f'''You are helping to test a verification harness for a small Python library. You will NOT see the harness. Your job is to write two *realistic, subtle* source changes to the library, each of which silently breaks ONE stated semantic property while the library still compiles and its own test-suite still passes.

## The library
A git worktree of the library (aiudirog/Aiuti: asyncio helpers, a file lock, itertools/parsing helpers) is at {wt} . Work ONLY inside that directory (and {wt}/_seeded/ below it). Never touch /repo or /verif (do not even read /verif), never commit, never edit anything under tests/ or docs/.
Python is /venv/bin/python (3.12). The suite is run with:
    cd {wt} && /venv/bin/python -m pytest -q -p no:cacheprovider --timeout=120
On the untouched tree it prints "2 failed, 42 passed" (the 2 failures are network doctests of to_async_iter / to_sync_iter: the sandbox has no network). With each of your changes it must print exactly the same.

## The property your changes must break (this text is all you get)
ID: {pid}
Title: {p['title']}
Statement: {p['statement']}
Quantified over: {p['quantifier']['text'] if isinstance(p['quantifier'],dict) else p['quantifier']}
Where it lives: {', '.join(p['anchors']['files']) if isinstance(p['anchors'],dict) else p['anchors']}

{THEMES}
## What to deliver, for each change, in {wt}/_seeded/<short-kebab-name>/
1. patch.diff  - `git diff -- aiuti` of the change against the untouched worktree (must apply with `git apply` to a clean checkout);
2. demo.py     - a self-contained program (only the library and the stdlib; run as `PYTHONPATH={wt} /venv/bin/python demo.py`, at most ~20 s) that demonstrates a violation OF THE STATED PROPERTY: exit status 1 and a line starting with "VIOLATION:" when the change is applied, exit status 0 on the untouched tree. It should be deterministic or nearly so (retry internally if it needs luck). It must not rely on anything outside the stated property (e.g. not on private attribute names that your own change introduced, unless only to *force* a schedule);
3. meta.json   - {{"property": "{pid}", "name": "<short-kebab-name>", "theme": "p|q|r|s|t", "summary": "<what was changed, 1-3 sentences>", "needs": "<the rare input / schedule / fault / history that makes it show, and what then goes wrong for the user>", "ran": ["<each command you ran to confirm, with its observed outcome>"]}}
Procedure per change: make the edit in the worktree; run the suite (must stay 2 failed, 42 passed); run demo.py (must exit 1); `git diff -- aiuti > .../patch.diff`; `git checkout -- aiuti`; run demo.py again (must exit 0); `git apply --check .../patch.diff`. Leave the worktree clean (`git status --short` shows only _seeded/) when you finish.

Finish with a short plain-text report: the names, one line each on what they need. If after honest effort you can only produce one, say so.
'''
for pid in sys.argv[1:]:
    wt = f'/tmp/seed/{pid}'
    if not os.path.exists(wt):
        subprocess.check_call(['git','-C','/repo','worktree','add','-q','--detach',wt,'HEAD'])
    os.makedirs(wt+'/_seeded', exist_ok=True)
    open(f'/tmp/seed/prompt_{pid}.txt','w').write(prompt(pid))
