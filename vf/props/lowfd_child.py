"""C12 in a process whose standard streams are closed (a daemon): the lock file then lands on descriptor 0, 1 or 2.
argv: lockpath reportfile reentrant(0/1) closed(e.g. 0 or 012).  Writes a JSON list of observations to reportfile.
"""
import json
import os
import sys


def main():
    path, report, reentrant, closed = sys.argv[1], sys.argv[2], sys.argv[3] == '1', sys.argv[4]
    import logging
    logging.disable(logging.CRITICAL)
    import aiuti.filelock as F
    for c in closed:
        os.close(int(c))
    obs = []

    def census():
        return sorted(int(x) for x in os.listdir('/proc/self/fd'))

    try:
        base = census()
        a = F.FileLock(path, reentrant=reentrant)
        b = F.FileLock(path, reentrant=reentrant)
        for rnd in range(2):
            got = a.acquire(timeout=0.2)
            held = [x for x in census() if x not in base]
            obs.append(['acquire', rnd, got, bool(a.is_locked), held])
            if reentrant and got:
                obs.append(['nested', rnd, a.acquire(blocking=False), bool(a.is_locked)])
                a.release()
                obs.append(['after_inner_release', rnd, bool(a.is_locked)])
            obs.append(['other_object_refused', rnd, b.acquire(blocking=False), bool(b.is_locked)])
            a.release()
            obs.append(['released', rnd, bool(a.is_locked), [x for x in census() if x not in base]])
            g = b.acquire(blocking=False)
            obs.append(['other_object_after_release', rnd, g, bool(b.is_locked)])
            if g:
                b.release()
            obs.append(['end_of_round', rnd, [x for x in census() if x not in base]])
    except BaseException as e:      # noqa - reported
        obs.append(['error', repr(e)])
    with open(report, 'w') as f:
        json.dump(obs, f)


if __name__ == '__main__':
    main()
