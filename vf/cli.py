"""./check <ID> [--tier quick|thorough] [--replay PATH]"""
import argparse
import os
import sys


def main(argv=None):
    ap = argparse.ArgumentParser()
    ap.add_argument('pid')
    ap.add_argument('--tier', default=os.environ.get('VERIF_TIER') or 'quick',
                    choices=['quick', 'thorough'])
    ap.add_argument('--replay')
    ap.add_argument('--jobs', type=int)
    a = ap.parse_args(argv)
    from vf import core
    import aiuti
    root = os.path.realpath(core.REPO)
    if not os.path.realpath(aiuti.__file__).startswith(root + os.sep):
        print(f'INCONCLUSIVE property={a.pid} reason=aiuti imported from {aiuti.__file__}, not {root}')
        return 2
    if a.replay:
        return core.replay(a.replay)
    seed = int(os.environ.get('VERIF_SEED') or 0)
    return core.run_check(a.pid, a.tier, seed, a.jobs)


if __name__ == '__main__':
    try:
        rc = main()
    except SystemExit:
        raise
    except BaseException as e:      # noqa - a crash of the machinery is never a verdict on the code
        import traceback
        traceback.print_exc()
        print(f'INCONCLUSIVE reason=verification machinery failed: {e!r}')
        rc = 2
    sys.exit(rc)
