#!/bin/bash
# Offline set-up after a fresh restore: byte-compile the framework and self-test the sim primitives.
set -e
here="$(cd "$(dirname "$0")" && pwd)"
cd "$here"
export PYTHONPATH="${VERIF_REPO:-/repo}:$here" PYTHONHASHSEED=0
/venv/bin/python -m compileall -q vf >/dev/null
/venv/bin/python -m vf.selftest
