"""Differential self-tests of the sim primitives against the real ones (single-threaded
operation sequences, outside any execution) and a determinism check of the scheduler."""
import queue
import random
import sys
import threading

from vf import simrt


def same(f, g):
    try:
        a = ('ok', f())
    except BaseException as e:      # noqa
        a = ('exc', type(e).__name__)
    try:
        b = ('ok', g())
    except BaseException as e:      # noqa
        b = ('exc', type(e).__name__)
    return a == b, a, b


def test_locks(rng, n=3000):
    bad = 0
    for cls_real, cls_sim in ((threading.Lock, simrt.SimLock), (threading.RLock, simrt.SimRLock)):
        for _ in range(n // 20):
            r, s = cls_real(), cls_sim()
            depth = 0
            for _ in range(20):
                op = rng.choice(['acq_nb', 'acq_t0', 'rel', 'acq_bad', 'acq_neg'])
                if op == 'acq_nb':
                    ok, a, b = same(lambda: r.acquire(False), lambda: s.acquire(False))
                elif op == 'acq_t0':
                    ok, a, b = same(lambda: r.acquire(True, 0), lambda: s.acquire(True, 0))
                elif op == 'acq_bad':
                    ok, a, b = same(lambda: r.acquire(False, 1), lambda: s.acquire(False, 1))
                elif op == 'acq_neg':
                    ok, a, b = same(lambda: r.acquire(True, -5), lambda: s.acquire(True, -5))
                else:
                    ok, a, b = same(r.release, s.release)
                if not ok:
                    bad += 1
                    if bad <= 5:
                        print('lock mismatch', cls_real.__name__, op, a, b)
    return bad


def test_queue(rng, n=300):
    bad = 0
    for _ in range(n):
        r, s = queue.Queue(), simrt.SimQueue()
        for _ in range(20):
            op = rng.choice(['put', 'get_nowait', 'qsize', 'empty', 'task_done'])
            x = rng.randrange(5)
            if op == 'put':
                ok, a, b = same(lambda: r.put_nowait(x), lambda: s.put_nowait(x))
            elif op == 'get_nowait':
                ok, a, b = same(r.get_nowait, s.get_nowait)
            elif op == 'qsize':
                ok, a, b = same(r.qsize, s.qsize)
            elif op == 'empty':
                ok, a, b = same(r.empty, s.empty)
            else:
                ok, a, b = same(r.task_done, s.task_done)
            if not ok:
                bad += 1
                print('queue mismatch', op, a, b)
    return bad


def test_determinism():
    import logging
    import warnings
    logging.disable(logging.CRITICAL)
    warnings.simplefilter('ignore')
    from vf import core
    c = core.load_check('C01')
    c.setup()
    bad = 0
    for case in list(c.cases('quick', 0))[:30]:
        scen, strat, inject = c.build(case)
        r1 = c.h.run(scen, strat, inject)
        scen, strat, inject = c.build(case)
        r2 = c.h.run(scen, strat, inject)
        if r1.log != r2.log or r1.signature != r2.signature:
            bad += 1
            print('non-deterministic replay', case)
    return bad


def main():
    rng = random.Random(0)
    bad = test_locks(rng) + test_queue(rng) + test_determinism()
    if bad:
        print('selftest: FAILED', bad)
        sys.exit(1)
    print('selftest: sim primitives agree with the real ones; scheduler replays deterministically')


if __name__ == '__main__':
    main()
