"""C14 - cache keys of threadsafe_async_cache against a dictionary model (Engine D).

One loop, sequential awaits.  The wrapped function returns (what it received,
invocation number); the model is a dict keyed by (args, frozenset(kwargs.items()))
under Python equality; caller-supplied mappings are a logging MutableMapping with
scripted evictions and an LRU whose eviction is predicted by a model LRU.
"""
from __future__ import annotations

import asyncio
import collections
import itertools
import random
from collections.abc import MutableMapping

from vf.core import Check, CaseResult

VALUES = [0, 1, 1.0, True, 'a', 'REBUILT_a', (1, 2), None, -1, 'b', '']
NAMES = ['x', 'y', 'z']


def materialise(v):
    if v == 'REBUILT_a':
        return ''.join(['a'])          # equal to 'a' but a distinct object
    if isinstance(v, list):
        return tuple(v)
    return v


def all_signatures():
    sigs = []
    for n in range(0, 3):
        for args in itertools.product(range(6), repeat=n):
            sigs.append((list(args), []))
    for args in ([], [1], [2, 0]):
        for k in range(1, 4):
            for names in itertools.permutations(NAMES, k):
                for vals in itertools.product(range(3), repeat=k):
                    sigs.append((list(args), [[nm, v] for nm, v in zip(names, vals)]))
    return sigs


class LoggingMap(MutableMapping):
    def __init__(self):
        self.d = {}
        self.gets = 0
        self.sets = 0

    def __getitem__(self, k):
        self.gets += 1
        return self.d[k]

    def __setitem__(self, k, v):
        self.sets += 1
        self.d[k] = v

    def __delitem__(self, k):
        del self.d[k]

    def __iter__(self):
        return iter(self.d)

    def __len__(self):
        return len(self.d)


class HostileMap(LoggingMap):
    """A caller-supplied cache whose owner evicts entries on its own schedule (TTL, memory pressure, another
    thread): an entry may vanish between any two operations of one call - here right after a membership test
    or a get() said it was there, and right after a store."""

    def __init__(self, rng):
        super().__init__()
        self.rng = rng
        self.vanished = 0

    def _maybe_evict(self, k):
        if k in self.d and self.rng.random() < 0.5:
            del self.d[k]
            self.vanished += 1

    def __contains__(self, k):
        r = k in self.d
        if r:
            self._maybe_evict(k)
        return r

    def get(self, k, default=None):
        r = self.d.get(k, default)
        self._maybe_evict(k)
        return r

    def __setitem__(self, k, v):
        super().__setitem__(k, v)
        self._maybe_evict(k)


class C14(Check):
    pid = 'C14'
    budget = {'quick': 30.0, 'thorough': 330.0}
    assumptions = [
        'signature families: single loop, sequential awaits (concurrency is C01\'s subject); the concurrent family only judges '
        'what the mapping being the only store implies: one fresh computation per evicted key, no computation for a key whose '
        'value some caller already received while nothing was evicted',
        '"equal" is Python ==/hash on the arguments as passed: f(1) and f(1.0) and f(True) share, f(1) and f(x=1) do not',
        'lru-dict\'s LRU is modelled as an ordered dict refreshed on hit and on store',
    ]
    rule = ('cases = call sequences over signatures built from positional tuples (length 0-2 exhaustively, 3 sampled) over '
            '{0, 1, 1.0, True, "a", rebuilt "a", (1,2), None, ...} and keyword dicts of 1-3 names in every insertion order; all ordered '
            'pairs of a signature sample plus random sequences of 3-12 calls; caches: default dict, logging MutableMapping with '
            'scripted evictions, LRU of size 1-3, a hostile mapping; plus concurrent histories (C06\'s scenarios, 30 % with an owner that '
            'runs its stopped loop again later) after which every key is requested once more, everything is evicted, and every key '
            'is requested again; calls made from plain coroutines, from except blocks, from __aexit__ and as tasks; a keep-warm helper '
            'started by the wrapped function refreshes its entry after an eviction; non-trivial = the sequence contains a model hit between non-identical '
            'signatures (equal-but-distinct objects / reordered keywords) or an eviction followed by a recomputation; '
            'distinct = distinct sequences')

    def setup(self):
        import aiuti.asyncio as A
        self.A = A
        self.loop = asyncio.new_event_loop()
        self.sigs = all_signatures()
        from vf import simrt
        from vf.props import cache as _cache
        simrt.prepare([A])
        self._simrt = simrt
        self._cache = _cache
        self.ch = _cache.CacheHarness(A)

    def run_concurrent(self, case):
        """'The supplied mapping is the only store' after a concurrent history: threads, loops, cancelled and
        timed-out waiters, loop shutdowns (the cache scenarios of C06) - then everything is evicted and every key
        requested once more: each must be computed afresh exactly once and return the fresh value."""
        simrt, C = self._simrt, self._cache
        rng = random.Random(case['seed'])
        scen = C.gen_takeover(rng, 'c06') if rng.random() < 0.25 else C.gen_rand(rng, 'c06')
        scen['cache'] = rng.choice(['rec', 'rec', 'dict_obj'])
        if scen['cache'] == 'dict_obj':
            scen['cache'] = 'rec'
        scen.pop('refuse', None)          # (a mapping that refuses stores, helpers spawned by the function: C05 / C06)
        scen.pop('spawn', None)
        scen['epilogue'] = rng.choice([True, 'hit_first'])
        if rng.random() < 0.3:
            # an owner that runs its loop again later: the computation it left pending completes after all
            for t in scen['threads']:
                if any(c['style'] == 'task' for c in t['callers']) and rng.random() < 0.7:
                    t['life'] = 'resume'
                    if not t['pause']:
                        t['pause'] = rng.choice([2 * C.U, 8 * C.D0, 12 * C.D0])
            if rng.random() < 0.5 and len(scen['inv']) > 1:
                scen['inv'][1] = [scen['inv'][1][0], True]       # the first successor computation fails
        strat = C.make_strategy(rng)
        r = self.ch.run(scen, strat, None)
        res = CaseResult()
        st = res.stats
        res.sig = r.signature
        if r.verdict == 'watchdog' or not r.clean:
            res.dirty = True
        if r.verdict == 'watchdog':
            res.inconclusive = 'wall-clock watchdog'
            return res
        if r.thread_errors:
            res.inconclusive = 'harness thread error: ' + repr(r.thread_errors[:2])
            return res
        st['concurrent_histories'] += 1
        if r.verdict is not None:
            st['concurrent_nonterminating_left_to_C05'] += 1
            return res
        log = r.log
        ev = next((i for i, e in enumerate(log) if e[0] == 'evict_all'), None)
        if ev is None:
            return res
        if any(e[0] == 'lresume' and e[2] for e in log):
            st['concurrent_with_resumed_loop'] += 1
        # equal arguments share an entry: nothing is evicted before 'evict_all', so a call made after some caller
        # already received a value for the key finds that entry and does not start a computation of its own
        first_ok = {}
        key_of = {e[1]: e[2] for e in log if e[0] == 'call'}
        for i, e in enumerate(log[:ev]):
            if e[0] == 'ret' and e[2] == 'ok' and e[1] in key_of:
                first_ok.setdefault(key_of[e[1]], i)
        for i, e in enumerate(log[:ev]):
            if e[0] == 'call' and e[2] in first_ok and i > first_ok[e[2]]:
                st['calls_after_a_value_was_returned'] += 1
                own = [x for x in log[i:ev] if x[0] == 'istart' and x[2] == e[2] and x[4] == e[1]]
                if own:
                    res.violate('C14:not-shared', 'a caller had already received a value for these arguments and nothing was evicted, '
                                'yet a later call with equal arguments computed again', key=e[2], caller=e[1], scenario=scen)
                    break
        had = set(log[ev][1])
        for i, e in enumerate(log):
            if e[0] == 'eret':
                k = e[1]
                started = [x for x in log[ev:i] if x[0] == 'istart' and x[2] == k]
                if e[2] == 'exc':
                    res.violate('C14:eviction-raises', 'a call after eviction failed', key=k, exc=e[3])
                elif e[2] == 'own_failure':
                    if len(started) != 1 or started[0][1] != e[3]:
                        res.violate('C14:other-store', 'the failure returned after eviction is not that of one fresh computation',
                                    key=k)
                elif k in had:
                    st['evicted_key_requested_again'] += 1
                    if len(started) != 1:
                        res.violate('C14:other-store', 'after its entry was evicted from the supplied mapping a key was '
                                    f'recomputed {len(started)} times instead of exactly once', key=k, value=e[3],
                                    scenario=scen)
                    elif scen.get('result') != 'none' and tuple(e[3]) != (k, started[0][1]):
                        res.violate('C14:wrong-value', 'the call after eviction did not return the fresh value', key=k, value=e[3])
        res.nontrivial = bool(had) and any(c[0] == 'ret' and c[2] in ('cancelled', 'timeout') for c in log)
        if res.nontrivial:
            st['nontrivial'] += 1
            st['concurrent_with_cancelled_waiter_then_evicted'] += 1
            res.sample = {'kind': 'concurrent', 'scenario': scen, 'log': log[:60]}
        if res.violations:
            res.sample = {'kind': 'concurrent', 'scenario': scen, 'log': log[-60:]}
        return res

    def cases(self, tier, seed):
        sigs = all_signatures()
        n = len(sigs)
        rng = random.Random(seed * 17 + 3)
        npairs = 90000 if tier == 'quick' else 1500000
        # near pairs: signatures that differ little are where keys collide or must not
        for i in range(min(n, 4000)):
            a = sigs[rng.randrange(n)]
            for _ in range(6):
                b = self._neighbour(rng, a)
                yield {'seq': [a, b, a, b], 'cache': 'dict', 'ev': []}
        for _ in range(npairs):
            a, b = sigs[rng.randrange(n)], sigs[rng.randrange(n)]
            if rng.random() < 0.5:
                b = self._neighbour(rng, a)
            yield {'seq': [a, b, b, a], 'cache': rng.choice(['dict', 'dict', 'map', 'lru1', 'lru2']), 'ev': []}
        for i in range(6000 if tier == 'quick' else 150000):
            yield {'concurrent': True, 'seed': (seed << 32) + i}
        nseq = 30000 if tier == 'quick' else 600000
        for _ in range(nseq):
            pool = [sigs[rng.randrange(n)] for _ in range(rng.randint(1, 4))]
            pool += [self._neighbour(rng, p) for p in pool[:2]]
            ln = rng.randint(3, 12)
            seq = [pool[rng.randrange(len(pool))] for _ in range(ln)]
            cache = rng.choice(['dict', 'map', 'map', 'lru1', 'lru2', 'lru3', 'hostile', 'hostile'])
            ev = sorted(rng.sample(range(1, ln), min(ln - 1, rng.randint(0, 3)))) if cache == 'map' else []
            yield {'seq': seq, 'cache': cache, 'ev': ev, 'ev_pick': rng.randrange(1000)}

    @staticmethod
    def _neighbour(rng, sig):
        args, kw = list(sig[0]), [list(p) for p in sig[1]]
        k = rng.random()
        if kw and k < 0.35:
            rng.shuffle(kw)                                # same set, other insertion order
        elif kw and k < 0.5:
            kw[rng.randrange(len(kw))][1] = rng.randrange(3)
        elif args and k < 0.75:
            i = rng.randrange(len(args))
            args[i] = rng.choice([1, 2, 3, 4, 5, 0])       # indexes into VALUES: 1, 1.0, True, 'a', rebuilt 'a', 0
        elif k < 0.85 and len(args) < 3:
            args.append(rng.randrange(len(VALUES)))
        elif k < 0.92 and args:
            kw.append(['x', args.pop()]) if not any(p[0] == 'x' for p in kw) else None
        else:
            args = args[::-1]
        return (args, kw)

    def run_case(self, case):
        if case.get('concurrent'):
            return self.run_concurrent(case)
        res = CaseResult()
        st = res.stats
        A = self.A
        inv = []

        keepers = {}        # model key -> (event, task): 'keep warm' helpers started by the wrapped function itself
        keep_warm = case.get('cache') == 'map' and bool(case.get('ev')) and case.get('ev_pick', 0) % 3 == 0

        async def f(*a, **k):
            inv.append((a, dict(k)))
            if keep_warm:
                mk = (a, frozenset(k.items()))
                if mk not in keepers:
                    # a helper task created inside the wrapped function that outlives it: once told that the entry was
                    # evicted, it asks for the same arguments again (through the wrapper, like anybody else)
                    go = asyncio.Event()

                    async def keeper():
                        await go.wait()
                        return await cf(*a, **k)
                    keepers[mk] = (go, asyncio.ensure_future(keeper()))
            return (repr(a), repr(sorted(k.items())), len(inv))

        ckind = case['cache']
        lru_size = None
        if ckind == 'hostile':
            return self.run_hostile(case, res, f, inv)
        if ckind == 'dict':
            cache = None
            cf = A.threadsafe_async_cache(f)
        elif ckind == 'map':
            cache = LoggingMap()
            cf = A.threadsafe_async_cache(f, cache=cache)
        else:
            lru_size = int(ckind[3:])
            try:
                from lru import LRU
                cache = LRU(lru_size)
            except ImportError:
                cache = LoggingMap()
                lru_size = None
            cf = A.threadsafe_async_cache(cache=cache)(f)
        model = collections.OrderedDict()
        events = []

        CTX = ['plain'] * 6 + ['except', 'except', 'task', 'aexit', 'cancelling', 'cleanup', 'taskgroup']

        async def call_in(ctx, a, kw):
            """the same call from different calling contexts: plain, while the caller is handling an exception, from
            an __aexit__ that received one, as a task of its own"""
            if ctx == 'except':
                try:
                    raise LookupError('being handled by the caller')
                except LookupError:
                    return await cf(*a, **kw)
            if ctx == 'task':
                return await asyncio.ensure_future(cf(*a, **kw))
            if ctx == 'aexit':
                class CM:
                    async def __aenter__(self):
                        return self

                    async def __aexit__(self, *exc):
                        self.r = await cf(*a, **kw)
                        return True
                cm = CM()
                async with cm:
                    raise LookupError('leaving the block')
                return cm.r
            if ctx == 'cancelling':
                # a long-lived worker that was cancelled once, caught it and went on: Task.cancelling() stays at 1
                async def worker():
                    me = asyncio.current_task()
                    asyncio.get_running_loop().call_soon(me.cancel)
                    try:
                        await asyncio.sleep(3600)
                    except asyncio.CancelledError:
                        pass
                    st['caller_task_cancelling_count_positive'] += me.cancelling() > 0
                    return await cf(*a, **kw)
                return await asyncio.ensure_future(worker())
            if ctx == 'cleanup':
                # clean-up code in the finally block of a task that is being cancelled (and stays cancelled)
                got = {}

                async def worker():
                    try:
                        await asyncio.sleep(3600)
                    finally:
                        st['caller_task_cancelling_count_positive'] += asyncio.current_task().cancelling() > 0
                        got['r'] = await cf(*a, **kw)
                t = asyncio.ensure_future(worker())
                await asyncio.sleep(0)
                t.cancel()
                try:
                    await t
                except asyncio.CancelledError:
                    pass
                return got['r']
            if ctx == 'taskgroup':
                # the body of a TaskGroup that goes on after a sibling failed (the group has already cancelled it once)
                got = {}

                async def failing():
                    raise LookupError('sibling')
                try:
                    async with asyncio.TaskGroup() as tg:
                        tg.create_task(failing())
                        try:
                            await asyncio.sleep(3600)
                        except asyncio.CancelledError:
                            st['caller_task_cancelling_count_positive'] += asyncio.current_task().cancelling() > 0
                            got['r'] = await cf(*a, **kw)
                            raise
                except* LookupError:
                    pass
                return got['r']
            return await cf(*a, **kw)

        import zlib
        salt = zlib.crc32(repr(case['seq']).encode())

        async def drive():
            for i, (ai, kwi) in enumerate(case['seq']):
                ctx = CTX[(salt >> (3 * i)) % len(CTX)]
                st[f'context_{ctx}'] += 1
                if i in case['ev'] and cache is not None and len(cache):
                    keys = list(cache)
                    victim = keys[case.get('ev_pick', 0) % len(keys)]
                    del cache[victim]
                    mk = [m for m in model if m == victim]
                    for m in mk:
                        del model[m]
                    st['evictions'] += 1
                    events.append(('evict', repr(victim)))
                    kp = keepers.pop(victim, None)
                    if kp is not None:
                        # the function's own helper refreshes the evicted entry: one computation, stored like any other
                        before = len(inv)
                        kp[0].set()
                        rk = await kp[1]
                        st['refreshed_by_the_functions_own_helper'] += 1
                        events.append(('keeper', repr(victim), rk))
                        if len(inv) != before + 1 or rk != (repr(victim[0]), repr(sorted(dict(victim[1]).items())), len(inv)):
                            res.violate('C14:recomputed-more-than-once', 'the refresh after an eviction did not compute exactly once',
                                        invocations=len(inv) - before, got=rk)
                            return
                        model[victim] = ((repr(victim[0]), repr(list(dict(victim[1]).items()))), rk)
                a = tuple(materialise(VALUES[x]) for x in ai)
                kw = {nm: materialise(VALUES[v]) for nm, v in kwi}
                key = (a, frozenset(kw.items()))
                before = len(inv)
                r = await call_in(ctx, a, kw)
                events.append(('call', repr(a), repr(kw), r, ctx))
                st['calls'] += 1
                if key in model:
                    st['model_hits'] += 1
                    stored_sig, stored_val = model[key]
                    if stored_sig != (repr(a), repr(list(kw.items()))):
                        st['hits_between_distinct_but_equal_signatures'] += 1
                    if len(inv) != before:
                        res.violate('C14:equal-signatures-not-shared',
                                    'two calls with equal (args, kwargs-set) invoked the function twice',
                                    call=(repr(a), repr(kw)), first=stored_sig)
                        return
                    if r != stored_val:
                        res.violate('C14:wrong-value', 'a cached call returned a value other than the one computed for its key',
                                    call=(repr(a), repr(kw)), got=r, stored=stored_val)
                        return
                    if lru_size:
                        model.move_to_end(key)
                else:
                    st['model_misses'] += 1
                    if len(inv) != before + 1:
                        res.violate('C14:unequal-signatures-shared' if len(inv) == before else 'C14:recomputed-more-than-once',
                                    'a call with a new signature did not trigger exactly one invocation',
                                    call=(repr(a), repr(kw)), invocations=len(inv) - before, got=r)
                        return
                    ra, rk = inv[-1]
                    if ra != a or rk != kw or any(x is not y for x, y in zip(ra, a)):
                        res.violate('C14:wrong-arguments', 'the function was invoked with other arguments than the call\'s',
                                    call=(repr(a), repr(kw)), invoked=(repr(ra), repr(rk)))
                        return
                    if r != (repr(a), repr(sorted(kw.items())), len(inv)):
                        res.violate('C14:wrong-value', 'the value returned is not the one just computed', got=r)
                        return
                    model[key] = ((repr(a), repr(list(kw.items()))), r)
                    if lru_size and len(model) > lru_size:
                        model.popitem(last=False)
                        st['lru_evictions_predicted'] += 1
            if cache is not None and lru_size is None and isinstance(cache, LoggingMap):
                if set(cache.d) != set(model) and {k for k in cache.d} != {k for k in model}:
                    res.violate('C14:other-store', 'the supplied mapping does not hold exactly the computed keys',
                                mapping=repr(list(cache.d))[:200], model=repr(list(model))[:200])
                if cache.sets != len(inv):
                    res.violate('C14:other-store', 'stores into the supplied mapping differ from the number of computations',
                                sets=cache.sets, invocations=len(inv))

        self.loop.run_until_complete(drive())
        for go, task in keepers.values():
            task.cancel()
        st[f'cache_{ckind}'] += 1
        recomputed_after_evict = st.get('evictions', 0) > 0 or st.get('lru_evictions_predicted', 0) > 0
        res.nontrivial = bool(st.get('hits_between_distinct_but_equal_signatures')) or recomputed_after_evict
        if res.nontrivial:
            st['nontrivial'] += 1
            res.sample = {'cache': ckind, 'events': events[:12]}
        if res.violations:
            res.sample = {'cache': ckind, 'events': events[-8:]}
        return res

    def run_hostile(self, case, res, f, inv):
        """Entries vanish between the operations of a call: what is returned must still be the value computed
        for this call's own arguments, with at most one computation per call and no exception."""
        st = res.stats
        cache = HostileMap(random.Random(case.get('ev_pick', 0)))
        cf = self.A.threadsafe_async_cache(f, cache=cache)
        events = []

        async def drive():
            for ai, kwi in case['seq']:
                a = tuple(materialise(VALUES[x]) for x in ai)
                kw = {nm: materialise(VALUES[v]) for nm, v in kwi}
                before = len(inv)
                try:
                    r = await cf(*a, **kw)
                except BaseException as e:     # noqa
                    res.violate(f'C14:eviction-raises:{type(e).__name__}',
                                'an entry evicted from the supplied mapping during a call made the call fail instead of '
                                'recomputing', call=(repr(a), repr(kw)), exc=repr(e)[:120])
                    return
                st['calls'] += 1
                events.append(('call', repr(a), repr(kw), r))
                want = (repr(a), repr(sorted(kw.items())))
                # values are tagged with the arguments that produced them: must be Python-equal arguments
                if len(inv) - before > 1:
                    res.violate('C14:recomputed-more-than-once', 'more than one computation for one call',
                                n=len(inv) - before)
                    return
                ra, rk = None, None
                for (ia, ik) in inv:
                    if (repr(ia), repr(sorted(ik.items()))) == (r[0], r[1]):
                        ra, rk = ia, ik
                        break
                if ra is None or ra != a or rk != kw:
                    res.violate('C14:wrong-value', 'value computed for other arguments', call=want, got=r[:2])
                    return

        self.loop.run_until_complete(drive())
        st['cache_hostile'] += 1
        st['entries_vanished_mid_call'] += cache.vanished
        res.nontrivial = cache.vanished > 0
        if res.nontrivial:
            st['nontrivial'] += 1
            res.sample = {'cache': 'hostile', 'vanished': cache.vanished, 'events': events[:8]}
        return res

    def floors(self, tier):
        k = 1 if tier == 'quick' else 15
        return {'nontrivial': 20000 * k, 'cache_hostile': 3000 * k, 'evicted_key_requested_again': 2000 * k,
                'concurrent_with_cancelled_waiter_then_evicted': 500 * k, 'calls_after_a_value_was_returned': 1500 * k,
                'concurrent_with_resumed_loop': 150 * k, 'hits_between_distinct_but_equal_signatures': 15000 * k, 'evictions': 3000 * k,
                'lru_evictions_predicted': 3000 * k, 'caller_task_cancelling_count_positive': 10000 * k, 'model_hits': 50000 * k, 'model_misses': 50000 * k}


def get_check(pid):
    return C14()
