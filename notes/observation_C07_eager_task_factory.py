"""Observation (outside C07's quantifier, not claimed, not a finding): with asyncio.eager_task_factory
the join() task that wait() creates runs its first step inside create_task, i.e. before the
call_soon_threadsafe callbacks of earlier submissions have put their producers on the queue, so
wait() can return before an argument submitted just before it was delivered.
Run: PYTHONPATH=/repo /venv/bin/python notes/observation_C07_eager_task_factory.py
"""
import asyncio
from aiuti.asyncio import buffer_until_timeout


async def main(eager):
    loop = asyncio.get_running_loop()
    if eager:
        loop.set_task_factory(asyncio.eager_task_factory)
    got = []

    @buffer_until_timeout(timeout=0.05)
    async def f(xs):
        got.append(set(xs))
    f(1)
    await asyncio.sleep(0.01)
    f(2)
    await f.wait()
    return got


for eager in (False, True):
    print('eager' if eager else 'default', asyncio.run(main(eager)))
