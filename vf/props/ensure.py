"""C17 - ensure_aw / run_aw_threadsafe / loop_in_thread under SimRT (Engine A).

Awaitables are the harness's: the body logs whether the running loop is the
target, sleeps a scripted virtual duration and returns a unique value or raises
a unique exception.  A runner counter inside SimLoop.run_forever detects a loop
run by two threads at once.
"""
from __future__ import annotations

import asyncio as aio
import random

from vf import simrt
from vf.core import Check, CaseResult, HarnessError, U, EPS

D = 16 * U


def gen(rng):
    mode = rng.choice(['idle', 'idle', 'running', 'running', 'closed', 'own', 'mixed', 'idle2run', 'run2idle'])
    ncall = rng.choice([1, 2, 2, 3, 3])
    callers = []
    for i in range(ncall):
        callers.append({
            'start': rng.choice([0, 0, 0, U, D, D + U, 2 * D]),
            'dur': rng.choice([0, 0, D, D, 2 * D, D / 2]),
            'out': rng.choice(['ret', 'ret', 'ret', 'ret', 'raise', 'raise', 'cancel']),
            'aw': rng.choice(['coro', 'coro', 'future', 'task']),
            'via': rng.choice(['ensure', 'ensure', 'ensure', 'threadsafe']),
            'n': rng.choice([1, 1, 2]),
        })
    dep = mode in ('idle', 'running') and ncall >= 2 and rng.random() < 0.2
    if dep:
        # caller 0's awaitable waits for an event that caller 1's awaitable sets (both on the target)
        callers[0].update(aw='coro', n=1, role='waiter')
        callers[1].update(aw='coro', n=1, role='setter')
    phase2 = []
    if mode == 'idle2run':
        # history on one loop: used idle first (some awaitables raise), later run by loop_in_thread and used again
        for i in range(rng.choice([1, 2])):
            phase2.append({'start': rng.choice([0, 0, U, D]), 'dur': rng.choice([0, D, 2 * D]),
                           'out': rng.choice(['ret', 'raise']), 'aw': rng.choice(['coro', 'coro', 'task']),
                           'via': rng.choice(['ensure', 'ensure', 'threadsafe']), 'n': 1})
    scen = {'mode': mode, 'callers': callers, 'stop_after': rng.choice([0, D, 4 * D]), 'dep': dep, 'phase2': phase2}
    if mode == 'run2idle':
        # history on one loop the other way round: run by loop_in_thread, stopped while it is busy with a long
        # synchronous callback (0.05-1 s), afterwards used again as an idle target
        scen['busy'] = rng.choice([0, D, 0.05, 0.25, 0.25, 1.0])
        scen['busy_gap'] = rng.choice([0, 0, U, 0.05])
        for i in range(rng.choice([1, 2])):
            phase2.append({'start': rng.choice([0, 0, U, D]), 'dur': rng.choice([0, D, 2 * D]),
                           'out': rng.choice(['ret', 'raise']), 'aw': rng.choice(['coro', 'coro', 'task']),
                           'via': 'ensure', 'n': 1})
    if mode in ('idle', 'idle2run', 'run2idle') and not dep and rng.random() < 0.3:
        scen['shared_agen'] = True
    if mode in ('idle', 'running', 'mixed') and not dep and rng.random() < 0.3:
        # an earlier target loop of the process has become unreachable garbage (in a reference cycle); the cyclic
        # collector runs at one line of the per-loop lock bookkeeping, in the thread executing it
        scen['garbage_target'] = True
        scen['gc'] = {'thread': rng.choice(['pool', 'pool', 'C', 'main']), 'qual': '_get_loop_lock', 'nth': rng.randint(1, 16)}
    return scen


def _who():
    import threading
    m = simrt.me()
    return m.name if m is not None else threading.current_thread().name


class EnsureHarness:
    def __init__(self, A, execute=None):
        self.A = A
        self.execute = execute or simrt.execute

    def run(self, scen, strategy, delays=None):
        A = self.A
        mode = scen['mode']

        def main(s):
            log = s.log

            def emit(*ev):
                if not s.dead:
                    log.append(ev + (s.now,))

            if scen.get('garbage_target'):
                def former_target():
                    old = aio.new_event_loop()
                    own = aio.new_event_loop()

                    async def nothing():
                        return 1
                    own.run_until_complete(A.ensure_aw(nothing(), old))
                    own.close()
                    old.close()
                    old._verif_cycle = old          # only the cyclic collector can reclaim it now
                    emit('garbage_target_made')
                s.spawn(former_target, 'G')
                s.block(lambda: any(e[0] == 'garbage_target_made' for e in log), s.now + 60.0, 'joinG')
            target = aio.new_event_loop()
            tname = target.sim_name
            stop = None
            if mode in ('running', 'mixed', 'run2idle'):
                stop = A.loop_in_thread(target)
                emit('lit_returned', target.is_running(), target._sim_runners)
            elif mode == 'closed':
                target.close()
            done = []
            box2 = {}
            dep_event = aio.Event()

            async def ticket_source():
                n = 0
                while True:
                    yield n
                    n += 1
            tickets = ticket_source() if scen.get('shared_agen') else None

            errs = {}         # aid -> the very exception instance the awaitable raised

            def make_body(aid, c, tgt, is_future):
                async def body():
                    lp = aio.get_running_loop()
                    emit('body_start', aid, lp is tgt, lp.sim_name, _who())
                    if tickets is not None and lp is target:
                        # every awaitable evaluated on the target draws from one long-lived async generator that lives there
                        emit('ticket', aid, await tickets.__anext__())
                    if c['dur']:
                        await aio.sleep(c['dur'])
                    if c.get('role') == 'waiter':
                        await dep_event.wait()
                    elif c.get('role') == 'setter':
                        dep_event.set()
                    if c['out'] == 'raise':
                        if not is_future:
                            emit('aw_done', aid, 'raise')
                        raise errs.setdefault(aid, HarnessError(aid))
                    if c['out'] == 'cancel':
                        # the awaitable's own outcome is a cancellation (somebody cancelled what it was waiting for)
                        if not is_future:
                            emit('aw_done', aid, 'cancel')
                        raise aio.CancelledError(aid)
                    if not is_future:
                        emit('aw_done', aid, 'ret')
                    return ('r', aid)
                return body

            def caller(i, c):
                def run():
                    if c['start']:
                        s.sleep(c['start'])
                    loop = aio.new_event_loop()
                    tgt = loop if mode == 'own' or (mode == 'mixed' and i == 0) else target

                    async def one(k):
                        aid = f'{i}.{k}'
                        is_future = c['aw'] == 'future' and tgt is not loop and not tgt.is_closed()
                        body = make_body(aid, c, tgt, is_future)
                        emit('call', aid, c['via'], c['aw'], tgt is loop)
                        try:
                            if c['aw'] == 'coro' or tgt.is_closed():
                                aw = body()
                            elif tgt is loop:
                                aw = aio.ensure_future(body()) if c['aw'] == 'task' else body()
                            elif c['aw'] == 'task':
                                aw = tgt.create_task(body())
                                if tgt.is_running():
                                    tgt.call_soon_threadsafe(lambda: None)    # wake it up: created from outside
                            else:
                                # a future of the target loop, completed by a task there
                                fut = tgt.create_future()
                                co = body()

                                def start(fut=fut, co=co):
                                    t = tgt.create_task(co)

                                    def copy(t, fut=fut):
                                        if fut.done():
                                            return
                                        emit('aw_done', aid, 'copied')
                                        if t.cancelled():
                                            fut.cancel()
                                        elif t.exception() is not None:
                                            fut.set_exception(t.exception())
                                        else:
                                            fut.set_result(t.result())
                                    t.add_done_callback(copy)
                                tgt.call_soon_threadsafe(start)
                                aw = fut
                            # run_aw_threadsafe "does not handle event loop conflicts": only used on a
                            # target that runs forever in its own thread (loop_in_thread)
                            if c['via'] == 'threadsafe' and tgt is not loop and (stop is not None or box2.get('stop') is not None):
                                r = await A.run_aw_threadsafe(aw, tgt)
                            else:
                                r = await A.ensure_aw(aw, tgt)
                            emit('ret', aid, 'val', r)
                        except HarnessError as e:
                            emit('ret', aid, 'exc', e.args[0])
                            if e is not errs.get(e.args[0]):
                                emit('not_the_instance_raised', aid, repr(e), repr(e.__cause__))
                        except aio.CancelledError:
                            emit('ret', aid, 'cancelled', aio.current_task().cancelling())
                        except RuntimeError as e:
                            emit('ret', aid, 'runtime', str(e)[:80])
                            if aio.iscoroutine(aw):
                                aw.close()
                        except BaseException as e:     # noqa
                            emit('ret', aid, 'other', repr(e)[:120])

                    async def m():
                        await aio.gather(*(one(k) for k in range(c['n'])))
                    loop.run_until_complete(m())
                    loop.close()
                    done.append(i)
                return run

            for i, c in enumerate(scen['callers']):
                s.spawn(caller(i, c), f'C{i}')
            ncall = len(scen['callers'])
            # virtual-time bound: generous; expiry means some caller never returned
            s.block(lambda: len(done) == ncall, s.now + 600.0, 'join')
            emit('joined', len(done) == ncall)
            if mode == 'run2idle' and len(done) == ncall:
                if scen['busy']:
                    target.call_soon_threadsafe(lambda: (emit('busy_start'), simrt.sim_sleep(scen['busy']), emit('busy_end')))
                    if scen['busy_gap']:
                        s.sleep(scen['busy_gap'])
                stop()
                emit('stop_returned', target.is_running(), target._sim_runners)
                stop = None
                for j, c in enumerate(scen['phase2']):
                    s.spawn(caller(ncall + j, c), f'C{ncall + j}')
                n2 = ncall + len(scen['phase2'])
                s.block(lambda: len(done) == n2, s.now + 600.0, 'join2')
                emit('joined', len(done) == n2)
            elif scen.get('phase2') and len(done) == ncall:
                stop = A.loop_in_thread(target)
                emit('lit_returned', target.is_running(), target._sim_runners)
                box2['stop'] = stop
                for j, c in enumerate(scen['phase2']):
                    s.spawn(caller(ncall + j, c), f'C{ncall + j}')
                n2 = ncall + len(scen['phase2'])
                s.block(lambda: len(done) == n2, s.now + 600.0, 'join2')
                emit('joined', len(done) == n2)
            if scen['stop_after']:
                s.sleep(scen['stop_after'])
            stop = stop or box2.get('stop')
            if stop is not None:
                stop()
                emit('stop_returned', target.is_running(), target._sim_runners)
            emit('max_runners', s.max_runners_seen)

        def pre(s):
            if delays and hasattr(s, 'line_delays'):
                s.line_delays = [dict(d) for d in delays]
            if scen.get('gc') and hasattr(s, 'line_delays'):
                import gc

                def collect():
                    s.log.append(('gc', s.now))
                    gc.collect()
                s.line_delays = list(s.line_delays) + [dict(scen['gc'], fn=collect)]

        return self.execute(main, strategy, max_steps=150000, watchdog=60.0, pre=pre)


class C17(Check):
    pid = 'C17'
    anchors = ('ensure_aw', 'loop_in_thread', '_get_loop_lock', 'run_aw_threadsafe', '_aw_to_coro')
    budget = {'quick': 40.0, 'thorough': 600.0}
    SIZES = {'quick': 45000, 'thorough': 900000}
    assumptions = [
        'Engine A: the shared thread pool, threading.Lock, the per-loop lock table and time.sleep inside aiuti.asyncio are '
        'sim equivalents; fresh loops every execution so the double-checked creation of the per-loop lock is exercised',
        'the harness\'s awaitables (outside the unjudged dependent pairs) finish whenever they are evaluated, so a caller that is '
        'blocked for ever at a dead-lock / at the virtual-time horizon is a refutation whether or not its awaitable was started',
    ]
    rule = ('cases = 1-3 caller threads (each its own loop, 1-2 calls) targeting one loop that is idle, running via '
            'loop_in_thread, closed, or the caller\'s own, or that changes mode between two phases (idle then run by '
            'loop_in_thread; run, stopped while busy with a synchronous callback of up to 1 s, then idle); 30 % with awaitables that draw from one async generator living on the target; 30 % with an earlier '
            'target loop left as cyclic garbage and a collection run at one line of the per-loop lock bookkeeping; awaitables as coroutine / future / task returning, raising, ending in a CancelledError of their own or '
            'sleeping on a grid; ensure_aw and run_aw_threadsafe; random/pct/stall schedules; non-trivial = >= 2 calls '
            'concurrently targeting one loop that is not their own; distinct = (case, baton moves)')

    def setup(self):
        import aiuti.asyncio as A
        simrt.prepare([A])
        self.h = EnsureHarness(A)

    REAL = {'quick': 16, 'thorough': 320}

    def cases(self, tier, seed):
        n = self.SIZES[tier]
        nreal = self.REAL[tier]
        every = max(1, n // nreal)
        for i in range(n):
            if i % every == 0 and i // every < nreal:
                yield {'real': True, 'seed': (seed << 32) + i}
            yield {'seed': (seed << 32) + i}

    def run_case(self, case):
        if case.get('real'):
            from vf import engine_b
            return engine_b.batch_case('ensure', 'x', case['seed'], 30, 'nontrivial')
        rng = random.Random(case['seed'])
        scen = gen(rng)
        k = rng.random()
        if k < 0.6:
            strat = simrt.Strategy('random', rng.choice([0.05, 0.3, 0.6]), seed=rng.randrange(1 << 30))
        elif k < 0.8:
            strat = simrt.Strategy('pct', d=3, span=rng.choice([200, 800]), seed=rng.randrange(1 << 30))
        else:
            strat = simrt.Strategy('stall', p=0.15, thread=rng.choice(['C0', 'C1', 'main', 'pool1of2']),
                                   k=rng.randrange(1, 200), seed=rng.randrange(1 << 30))
        delays = None
        if rng.random() < 0.25:
            # a long preemption of a caller thread or of a helper thread at one line of the cross-loop helpers
            delays = [{'thread': rng.choice(['C0', 'C1', 'C', 'pool', 'pool', 'main']),
                       'qual': rng.choice(['ensure_aw', 'ensure_aw', 'loop_in_thread', '_get_loop_lock', 'run_aw_threadsafe']),
                       'nth': rng.randint(1, 30), 'd': rng.choice([U, D, 4 * D])}]
        r = self.h.run(scen, strat, delays)
        return self.judge(scen, r, strat)

    def judge(self, scen, r, strat):
        res = CaseResult()
        res.sig = r.signature
        res.cov = {k: c for k, c in r.sched.line_cov.items() if k[0].startswith(self.anchors)}
        res.switch_cov = {k for k in r.sched.switch_lines if k[0].startswith(self.anchors)}
        if r.verdict == 'watchdog' or not r.clean:
            res.dirty = True
        if r.verdict == 'watchdog':
            res.inconclusive = 'wall-clock watchdog'
            return res
        if r.thread_errors:
            res.inconclusive = 'harness thread error: ' + repr(r.thread_errors[:2])
            res.sample = {'scenario': scen, 'log': r.log[-30:]}
            return res
        st = res.stats
        st['executions'] += 1
        mode = scen['mode']
        st[f'target_{mode}'] += 1
        if any(e[0] == 'gc' for e in r.log):
            st['gc_run_inside_loop_lock_bookkeeping'] += 1
        tk = [e[2] for e in r.log if e[0] == 'ticket']
        if tk:
            st['awaitables_sharing_an_async_generator_of_the_target'] += 1
            if sorted(tk) != list(range(len(tk))):
                res.violate('C17:target-state-disturbed', 'an async generator living on the target loop was restarted or closed behind '
                            'its owner\'s back', tickets=tk)
        if any(e[0] == 'busy_end' for e in r.log):
            st['stopped_while_busy_then_used_idle'] += 1
        if r.sched.delays_fired:
            st['long_delay_injected'] += 1
        if scen.get('dep'):
            # awaitables that depend on each other are outside the property's quantifier (they may dead-lock on an
            # idle target whichever caller's helper holds the loop); they are executed to compare trees, not judged
            st['dependent_awaitables'] += 1
            if r.verdict is not None:
                st['dependent_awaitables_' + r.verdict] += 1
            return res
        log = r.log
        calls = {e[1]: (i, e) for i, e in enumerate(log) if e[0] == 'call'}
        rets = {e[1]: (i, e) for i, e in enumerate(log) if e[0] == 'ret'}
        starts = {e[1]: (i, e) for i, e in enumerate(log) if e[0] == 'body_start'}
        ends = {e[1]: (i, e) for i, e in enumerate(log) if e[0] == 'aw_done'}
        for aid, (i, c) in calls.items():
            ci = int(aid.split('.')[0])
            spec = (scen['callers'] + scen.get('phase2', []))[ci]
            own = c[4]
            rr = rets.get(aid)
            if mode == 'closed' and not own:
                st['closed_target_calls'] += 1
                if rr is None or rr[1][2] != 'runtime':
                    res.violate('C17:closed-target', 'a closed target loop did not raise RuntimeError',
                                got=None if rr is None else rr[1][2:4])
                continue
            if aid in starts and not starts[aid][1][2]:
                res.violate('C17:wrong-loop', 'the awaitable was evaluated on a loop other than the target',
                            aid=aid, ran_on=starts[aid][1][3])
            if rr is None:
                if aid in ends:
                    res.violate('C17:caller-never-returns', 'the awaitable completed on the target but its caller never returned',
                                aid=aid, verdict=r.verdict, blocked=r.blocked)
                elif r.verdict in ('deadlock', 'timebound'):
                    # the harness's awaitables are independent of each other and finish whenever they are evaluated:
                    # one that is never evaluated to its end was not given to its caller
                    res.violate('C17:never-evaluated', 'an awaitable that completes whenever it is run was never run to its end; '
                                'its caller is blocked for ever', aid=aid, verdict=r.verdict, started=aid in starts, blocked=r.blocked)
                else:
                    st['unreturned_at_stepbound'] += 1
                continue
            kind, val = rr[1][2], rr[1][3]
            exp = ('exc', aid) if spec['out'] == 'raise' else ('cancelled', 0) if spec['out'] == 'cancel' else ('val', ('r', aid))
            if (kind, val) != exp:
                res.violate(f'C17:wrong-outcome:{kind}', 'caller did not receive exactly the awaitable\'s result / exception',
                            aid=aid, got=(kind, val), expected=exp)
            else:
                st[f'outcome_{kind}'] += 1
            st[f'branch_{"own" if own else mode}'] += 1
        for e in log:
            if e[0] == 'not_the_instance_raised':
                res.violate('C17:wrong-outcome:copy', 'the caller received an exception that is not the instance the awaitable raised',
                            aid=e[1], got=e[2], cause=e[3])
        mr = [e for e in log if e[0] == 'max_runners']
        if r.sched.max_runners_seen > 1 or (mr and mr[0][1] > 1):
            res.violate('C17:loop-run-twice', 'an event loop was being run by two threads at once')
        for e in log:
            if e[0] == 'ret' and e[2] in ('runtime', 'other') and mode != 'closed':
                res.violate(f'C17:unexpected-error', 'caller received an error the awaitable did not raise',
                            aid=e[1], err=e[3])
            if e[0] == 'lit_returned' and not e[1]:
                res.violate('C17:loop_in_thread-early', 'loop_in_thread returned while the loop was not running')
            if e[0] == 'stop_returned' and (e[1] or e[2]):
                res.violate('C17:stop-early', 'the stop function returned while the loop was still running')
            if e[0] == 'lit_returned':
                st['loop_in_thread_checked'] += 1
            if e[0] == 'stop_returned':
                st['stop_checked'] += 1
        if r.verdict in ('deadlock', 'stepbound', 'timebound') and not res.violations:
            completed_unreturned = [a for a in ends if a not in rets]
            if completed_unreturned or r.verdict == 'stepbound':
                res.violate('C17:hang', f'{r.verdict}', blocked=r.blocked)
            else:
                st['executions_with_orphans_blocked'] += 1
        # concurrency: two calls pending at once on a non-own target
        foreign = sorted((i, rets.get(a, (10 ** 9,))[0]) for a, (i, c) in calls.items() if not c[4])
        res.nontrivial = any(b0 < a1 for (a0, a1), (b0, b1) in zip(foreign, foreign[1:])) and mode != 'closed'
        if res.nontrivial:
            st['nontrivial'] += 1
        if res.violations or res.nontrivial:
            res.sample = {'scenario': scen, 'strategy': strat.describe() if strat else 'engine B (free-running)', 'verdict': r.verdict, 'log': log[:60],
                          'switches': r.sched.switches[:10]}
        return res

    def floors(self, tier):
        k = 1 if tier == 'quick' else 15
        return {'nontrivial': 8000 * k, 'branch_idle': 4000 * k, 'branch_running': 4000 * k, 'branch_own': 1500 * k,
                'closed_target_calls': 1500 * k, 'loop_in_thread_checked': 4000 * k, 'stop_checked': 4000 * k,
                'outcome_exc': 3000 * k, 'gc_run_inside_loop_lock_bookkeeping': 500 * k, 'stopped_while_busy_then_used_idle': 1000 * k}


def get_check(pid):
    return C17()
