"""A single polling waiter for C13: acquires with a long timeout over and over and logs, with CLOCK_MONOTONIC
stamps, every pause the lock takes between two attempts (S), every acquisition (A) and release (R).
argv: lockpath logfile timeout poll_interval.   Ends on SIGTERM; prints a JSON summary.
"""
import json
import os
import signal
import sys
import time


def main():
    path, logfile, timeout, poll = sys.argv[1], sys.argv[2], float(sys.argv[3]), float(sys.argv[4])
    import logging
    logging.disable(logging.CRITICAL)
    import aiuti.filelock as F
    fd = os.open(logfile, os.O_CREAT | os.O_APPEND | os.O_WRONLY)

    def log(kind, extra=''):
        os.write(fd, f'{kind} {time.monotonic():.6f} {extra}\n'.encode())

    class TimeProxy:
        """stands in for the `time` module inside aiuti.filelock: same functions, pauses are logged"""
        def __getattr__(self, name):
            return getattr(time, name)

        def sleep(self, d):
            log('S', d)
            time.sleep(d)

    if getattr(F, 'time', None) is time:
        F.time = TimeProxy()
    else:
        log('NOPROXY')
    stop = []
    signal.signal(signal.SIGTERM, lambda *a: stop.append(1))
    lock = F.FileLock(path)
    n = 0
    errors = []
    while not stop:
        log('T')
        try:
            got = lock.acquire(timeout=timeout, poll_interval=poll)
        except Exception as e:     # noqa - reported
            errors.append(repr(e))
            break
        log('A', got)
        if got:
            n += 1
            time.sleep(0.005)
            lock.release()
            log('R')
        time.sleep(0.03)           # lets a blocked holder-to-be in
    print(json.dumps({'acquired': n, 'errors': errors}))


if __name__ == '__main__':
    main()
