"""C15 - decorator-with-options forms configure like the direct forms; a decorated
batcher works from any number of loops.

Absolute layer: every option is given a non-default value (alone, and all
jointly) and a probing program measures the value *in effect* in virtual time;
differential layer: the same timed program against every form must produce the
same event log; multi-loop layer: one decorated batcher used from 1-3 loops
successively and 2-3 at once.
"""
from __future__ import annotations

import asyncio as aio
import collections
import gc
import random

from vf import simrt
from vf.core import Check, CaseResult, HarnessError, U, EPS
from vf.props import batcher as B
from vf.props.cache import RecordingMapping

DEFAULTS = {'size': 256, 'conc': 5, 'bt': 0.05, 'ret': 0.0}
OPTNAME = {'size': 'max_batch_size', 'conc': 'max_concurrent_batches', 'bt': 'batch_timeout',
           'ret': 'retention_timeout'}
# batch_timeout=0 is a valid, falsy, non-default value (an incomplete batch is handed over at once)
VALUES = {'size': [1, 2, 3, 5], 'conc': [1, 2, 3], 'bt': [0.0, 16 * U, 64 * U, 256 * U],
          'ret': [32 * U, 128 * U, 2048 * U]}
FORMS = ('class', 'deco', 'deco_opts')


def probe_program(opt, eff):
    """Program whose observable behaviour distinguishes eff[opt] from the default."""
    cfg = {'bt': eff['bt'], 'size': eff['size'], 'conc': eff['conc'], 'ret': eff['ret'],
           'bdur': 0, 'idur': 0, 'order': 'fwd', 'form': 'class', 'explicit_key': True}
    calls = []
    if opt == 'size':
        S = eff['size']
        for i in range(2 * S + 1):
            calls.append({'t': 0.0, 'key': f'k{i}', 'beh': 'val', 'cancel': None, 'how': None})
    elif opt == 'conc':
        C = eff['conc']
        gap = max(eff['bt'], 16 * U) * 2
        cfg['bdur'] = (C + 3) * gap * 2
        for i in range(C + 2):
            calls.append({'t': i * gap, 'key': f'k{i}', 'beh': 'val', 'cancel': None, 'how': None})
    elif opt == 'bt':
        calls.append({'t': 0.0, 'key': 'k0', 'beh': 'val', 'cancel': None, 'how': None})
    else:
        cfg['bdur'] = 16 * U
        R = eff['ret']
        ta = (0.0 if eff['size'] == 1 else eff['bt']) + cfg['bdur']
        for t in (0.0, ta + R * 15 / 16, ta + R * 17 / 16):
            calls.append({'t': t, 'key': 'a', 'beh': 'val', 'cancel': None, 'how': None})
    return {'cfg': cfg, 'calls': calls, 'muts': []}


def measure(opt, eff, v: B.BatView):
    """-> (observed, expected, distinguishing?)"""
    if opt == 'size':
        return [len(b[2]) for _, b in v.bstarts], [eff['size'], eff['size'], 1], True
    if opt == 'conc':
        return max([b[3] for _, b in v.bstarts] or [0]), eff['conc'], len(v.bstarts) >= eff['conc'] + 1
    if opt == 'bt':
        if eff['size'] == 1:
            return None, None, False
        return (v.bstarts[0][1][-1] if v.bstarts else None), eff['bt'], True
    batched = sorted(cid for cid in v.where)
    return batched, [0, 2], True


class MultiLoopHarness:
    def __init__(self, A):
        self.A = A

    def run(self, mode, nloops, opts_form, cfg, calls_per_loop, strategy):
        A = self.A

        def main(s):
            log = s.log

            def emit(*ev):
                if not s.dead:
                    log.append(ev + (s.now,))

            bid = [0]

            async def fn(batch):
                bid[0] += 1
                b = bid[0]
                items = list(batch)
                lp = aio.get_running_loop()
                emit('bstart', b, lp.sim_name, [(k, a.cid) for k, a in items])
                if cfg['bdur']:
                    await aio.sleep(cfg['bdur'])
                for k, a in items:
                    yield k, (k, b, a.cid)
                emit('bend', b, lp.sim_name)

            opts = dict(max_batch_size=cfg['size'], max_concurrent_batches=cfg['conc'],
                        batch_timeout=cfg['bt'], retention_timeout=cfg['ret'])
            if opts_form == 'deco':
                wrapped = A.async_background_batcher(fn, **opts)
            else:
                wrapped = A.async_background_batcher(**opts)(fn)

            end = cfg.get('end', 'runner')
            nested_done = {}

            def use_loop(li, calls, nest=None):
                loop = aio.new_event_loop()
                aio.set_event_loop(loop)
                lname = loop.sim_name
                t_base = s.now
                emit('lstart', li, lname)
                loop.set_exception_handler(lambda lp, ctx: emit('loop_exc', li, str(ctx.get('message'))[:100],
                                                                repr(ctx.get('exception'))[:100]))

                async def call(j, c):
                    if c['t']:
                        await aio.sleep(c['t'])
                    cid = f'{li}.{j}'
                    emit('call', cid, c['key'], lname, s.now - t_base)
                    try:
                        r = await wrapped(B.Arg(c['key'], cid), key=c['key'])
                        emit('ret', cid, 'val', r, s.now - t_base)
                    except BaseException as e:     # noqa
                        emit('ret', cid, 'other', type(e).__name__, s.now - t_base)
                    if nest is not None and j == 0:
                        # the next loop is started from inside this task - which has just used the function - in a copy of
                        # its context (what asyncio.to_thread and run_coroutine_threadsafe-style hand-offs do), while this
                        # loop stays alive and waits for it
                        import contextvars
                        ctx = contextvars.copy_context()
                        nli, ncalls, nnest = nest
                        s.spawn(lambda: ctx.run(use_loop, nli, ncalls, nnest), f'T{nli}')
                        while not nested_done.get(nli):
                            await aio.sleep(B.BT / 2)

                async def main_coro():
                    ts = [aio.ensure_future(call(j, c)) for j, c in enumerate(calls)]
                    await aio.wait(ts, timeout=32.0)
                    emit('pending', li, [j for j, t in enumerate(ts) if not t.done()])
                    if not end.startswith('early'):
                        await aio.sleep(cfg['ret'] + 2 * cfg['bt'])

                loop.run_until_complete(main_coro())
                if end.endswith('runner'):
                    ts = aio.all_tasks(loop)
                    for t in ts:
                        t.cancel()
                    if ts:
                        loop.run_until_complete(aio.gather(*ts, return_exceptions=True))
                # ('abrupt': closed by hand with the batcher's processing task - and, if 'early', its retention timers -
                # still pending, as new_event_loop / run_until_complete / close sequences do)
                loop.close()
                emit('lclosed', li, lname)
                nested_done[li] = True

            if mode == 'successive':
                def body():
                    for li in range(nloops):
                        use_loop(li, calls_per_loop[li])
                        if li % 2 == 0:
                            aio.set_event_loop(None)
                            simrt.CUR[0].yield_point('gc')
                            gc.collect()       # drop the closed loop (weak registry entry must go with it)
                s.spawn(body, 'T0')
            elif mode == 'nested':
                nest = None
                for li in range(nloops - 1, 0, -1):
                    nest = (li, calls_per_loop[li], nest)
                s.spawn(lambda: use_loop(0, calls_per_loop[0], nest), 'T0')
            else:
                for li in range(nloops):
                    s.spawn(lambda li=li: use_loop(li, calls_per_loop[li]), f'T{li}')

        return simrt.execute(main, strategy, max_steps=200000, lines=(mode == 'concurrent'), watchdog=60.0)


class SegmentHarness:
    """Loops that stay open and are driven piecewise with run_until_complete (one thread), several wrappers in use.

    how == 'deco': wrappers[i] = async_background_batcher(**opts_i)(fn_i)   (fn_i may be one shared function object)
    how == 'ref' : on every loop each wrapper is its own AsyncBackgroundBatcher(fn_i', **opts_i), made on first use there,
                   with fn_i' a distinct function object per wrapper - the behaviour the decorator must reproduce"""

    def __init__(self, A):
        self.A = A

    def run(self, how, wrappers, shared_fn, segments, nloops, bdur, gc_between=False):
        A = self.A

        def main(s):
            log = s.log

            def emit(*ev):
                if not s.dead:
                    log.append(ev + (s.now,))

            bid = [0]

            def make_fn():
                async def fn(batch):
                    bid[0] += 1
                    b = bid[0]
                    items = list(batch)
                    emit('bstart', b, [(k, a.cid) for k, a in items])
                    if bdur:
                        await aio.sleep(bdur)
                    for k, a in items:
                        yield k, (k, b, a.cid)
                    emit('bend', b)
                return fn

            one = make_fn()
            fns = [one if (shared_fn and how == 'deco') else make_fn() for _ in wrappers]
            optl = [dict(max_batch_size=w['size'], max_concurrent_batches=w['conc'], batch_timeout=w['bt'],
                         retention_timeout=w['ret']) for w in wrappers]
            if how == 'deco':
                ws = [A.async_background_batcher(**o)(f) if w['form'] == 'deco_opts' else A.async_background_batcher(f, **o)
                      for w, o, f in zip(wrappers, optl, fns)]
            per_loop = {}

            def body():
                loops = [aio.new_event_loop() for _ in range(nloops)]
                for si, (li, calls, rest) in enumerate(segments):
                    loop = loops[li]
                    aio.set_event_loop(loop)

                    async def call(j, c, li=li):
                        if c['t']:
                            await aio.sleep(c['t'])
                        cid = f'{si}.{j}'
                        emit('call', cid, c['w'], c['key'])
                        on = c.get('on')
                        run_li = li if on is None else on

                        async def ref_call():
                            # (the reference batcher of a loop is made by code running on that loop)
                            target = per_loop.get((run_li, c['w']))
                            if target is None:
                                target = per_loop[(run_li, c['w'])] = A.AsyncBackgroundBatcher(fns[c['w']], **optl[c['w']])
                            return await target(B.Arg(c['key'], cid), key=c['key'])
                        try:
                            coro = ws[c['w']](B.Arg(c['key'], cid), key=c['key']) if how == 'deco' else ref_call()
                            if on is None:
                                r = await coro
                            else:
                                # the call object is made here but evaluated by another (idle) loop: it belongs to that
                                # loop's batching
                                r = await A.ensure_aw(coro, loops[on])
                            emit('ret', cid, 'val', r)
                        except BaseException as e:     # noqa
                            emit('ret', cid, 'other', type(e).__name__)

                    async def seg():
                        ts = [aio.ensure_future(call(j, c)) for j, c in enumerate(calls)]
                        await aio.wait(ts, timeout=32.0)
                        emit('pending', si, [j for j, t in enumerate(ts) if not t.done()])
                        if rest:
                            await aio.sleep(rest)
                    emit('segment', si, li)
                    loop.run_until_complete(seg())
                    if gc_between:
                        aio.set_event_loop(None)
                        emit('gc', gc.collect() >= 0)
                for loop in loops:
                    ts = aio.all_tasks(loop)
                    for t in ts:
                        t.cancel()
                    if ts:
                        loop.run_until_complete(aio.gather(*ts, return_exceptions=True))
                    loop.close()
            s.spawn(body, 'T0')

        return simrt.execute(main, simrt.Strategy('none'), max_steps=300000, lines=False, watchdog=60.0)


class C15(Check):
    pid = 'C15'
    anchors = ('async_background_batcher', 'buffer_until_timeout', 'threadsafe_async_cache',
               'AsyncBackgroundBatcher.__init__')
    budget = {'quick': 40.0, 'thorough': 420.0}
    assumptions = [
        'Engine A, virtual time; option effects are measured through behaviour only (batch sizes, running batches, '
        'hand-over delay, reuse window, flush delay, store used), never by reading attributes',
        'multi-loop concurrent use is explored under random/pct line-level schedules',
        'Python 3.12',
    ]
    rule = ('cases = (a) every batcher option alone and all jointly with values from small non-default sets, probed by a '
            'program that distinguishes the value from the default, in the class / decorator / decorator-with-options forms; '
            '(b) the cache and timeout options of threadsafe_async_cache / buffer_until_timeout in both forms; (c) random timed '
            'programs run against all three batcher forms, logs compared; (d) one decorated batcher used from 1-3 loops '
            'successively (gc in between) and 2-3 at once; (e) segment programs: 1-3 loops that stay open and are driven piecewise, '
            '1-2 wrappers (mostly of one function object) with different options, compared event by event with one '
            'AsyncBackgroundBatcher per (loop, wrapper), 30 % with collector runs while every loop is idle, 25 % with calls made on one '
            'loop and evaluated by another through ensure_aw; non-trivial = the observed effect distinguishes the given value '
            'from the default (a, b), the program produced >= 2 batches (c), >= 2 loops were served (d), a loop is returned to or '
            'one function is wrapped twice (e); distinct = distinct cases')
    SIZES = {'quick': {'diff': 9000, 'multi': 5000, 'segments': 4000, 'optrep': 1},
             'thorough': {'diff': 200000, 'multi': 120000, 'segments': 100000, 'optrep': 3}}

    def setup(self):
        import aiuti.asyncio as A
        simrt.prepare([A])
        self.A = A
        self.h = B.BatcherHarness(A)
        self.m = MultiLoopHarness(A)
        self.seg = SegmentHarness(A)

    def cases(self, tier, seed):
        sz = self.SIZES[tier]
        # (a) absolute: each option alone, and jointly
        for opt, vals in VALUES.items():
            for val in vals:
                yield {'kind': 'opt', 'given': {opt: val}, 'probe': opt}
        rng = random.Random(seed * 977 + 5)
        combos = [(a, b, c, d) for a in VALUES['size'] for b in VALUES['conc'] for c in VALUES['bt'] for d in VALUES['ret']]
        for (a, b, c, d) in combos:
            given = {'size': a, 'conc': b, 'bt': c, 'ret': d}
            for opt in VALUES:
                yield {'kind': 'opt', 'given': given, 'probe': opt}
        # (b) cache / buffer decorators
        for tau in (16 * U, 256 * U, 2048 * U, 3 * U, 0, 0.0):
            yield {'kind': 'buffer', 'timeout': tau}
            yield {'kind': 'buffer', 'timeout': tau, 'fail_first': 1}
            yield {'kind': 'buffer', 'timeout': tau, 'fail_first': 2}
        for n in (1, 2, 3):
            yield {'kind': 'cache', 'nkeys': n}
        order = ['diff'] * sz['diff'] + ['multi'] * sz['multi'] + ['segments'] * sz['segments']
        rng.shuffle(order)
        for i, k in enumerate(order):
            yield {'kind': k, 'seed': (seed << 32) + i}

    # -- individual case kinds ------------------------------------------------
    def run_opt(self, case, res):
        given = case['given']
        opt = case['probe']
        eff = dict(DEFAULTS)
        eff.update(given)
        prog = probe_program(opt, eff)
        prog['cfg']['only'] = [OPTNAME[k] for k in given]
        logs = {}
        st = res.stats
        for form in FORMS:
            r = self.h.run(prog, form=form)
            st['executions'] += 1
            if r.verdict == 'watchdog' or not r.clean:
                res.dirty = True
            if r.verdict is not None or r.thread_errors:
                res.violate(f'C15:form-fails:{form}', f'{form} form did not complete: {r.verdict} {r.thread_errors[:1]}')
                continue
            v = B.BatView(r.log, prog)
            obs, exp, dist = measure(opt, eff, v)
            logs[form] = r.log
            if not dist:
                st['probe_not_distinguishing'] += 1
                continue
            st['option_effects_measured'] += 1
            st[f'measured_{opt}'] += 1
            res.nontrivial = True
            ok = (abs(obs - exp) <= EPS) if isinstance(exp, float) and obs is not None else obs == exp
            if not ok:
                res.violate(f'C15:option-not-in-effect:{OPTNAME[opt]}:{form}',
                            f'{OPTNAME[opt]}={given.get(opt)} given to the {form} form, but the behaviour shows another value',
                            observed=obs, expected=exp, given={OPTNAME[k]: x for k, x in given.items()})
        if len(logs) == 3 and not (logs['class'] == logs['deco'] == logs['deco_opts']):
            bad = [f for f in FORMS if logs[f] != logs['class']]
            if not res.violations:
                res.violate(f'C15:forms-differ:{bad[0]}', 'same program, same options, different behaviour between forms',
                            forms=bad)
        res.sample = {'given': {OPTNAME[k]: x for k, x in given.items()}, 'probed': OPTNAME[opt],
                      'class_form_log': logs.get('class', [])[:30]}

    def run_diff(self, case, res):
        rng = random.Random(case['seed'])
        prog = B.gen(rng, rng.choice(['c04', 'c10', 'c11']))
        prog['muts'] = []        # only the class form exposes max_batch_size for mutation
        logs = {}
        st = res.stats
        for form in FORMS:
            r = self.h.run(prog, form=form, seed=case['seed'])
            st['executions'] += 1
            if r.verdict == 'watchdog' or not r.clean:
                res.dirty = True
            if r.verdict is not None or r.thread_errors:
                res.violate(f'C15:form-fails:{form}', f'{form} form did not complete: {r.verdict}')
                return
            logs[form] = r.log
        nb = sum(1 for e in logs['class'] if e[0] == 'bstart')
        res.nontrivial = nb >= 2
        st['differential_programs'] += 1
        for form in FORMS[1:]:
            if logs[form] != logs['class']:
                first = next((i for i, (a, b) in enumerate(zip(logs[form], logs['class'])) if a != b),
                             min(len(logs[form]), len(logs['class'])))
                res.violate(f'C15:forms-differ:{form}', 'same program, same options, different behaviour between forms',
                            first_difference=first, class_event=logs['class'][first:first + 2],
                            other_event=logs[form][first:first + 2])
                break
        res.sample = {'program': prog, 'class_form_log': logs['class'][:40]}

    def run_multi(self, case, res):
        rng = random.Random(case['seed'])
        mode = rng.choice(['successive', 'successive', 'concurrent', 'concurrent', 'nested'])
        nloops = rng.choice([1, 2, 3]) if mode == 'successive' else rng.choice([2, 3])
        cfg = {'size': rng.randint(1, 4), 'conc': rng.randint(1, 3), 'bt': B.BT, 'ret': rng.choice([0, B.BT / 2, 4 * B.BT]),
               'bdur': rng.choice([0, B.BT / 4, B.BT])}
        base = []
        t = 0.0
        for i in range(rng.randint(1, 6)):
            t += rng.choice([0, 0, B.BT / 4, B.BT + B.BT / 16, 2 * B.BT])
            base.append({'t': t, 'key': rng.choice('abc')})
        if mode == 'nested':
            # loops overlap here, so their clocks differ by arbitrary amounts: timers that fall on the same instant may fire
            # in either order (asyncio promises none) - arrival instants are made distinct so that loops stay comparable
            base = [{'t': c['t'] + j * B.BT / 64, 'key': c['key']} for j, c in enumerate(base)]
        if mode in ('successive', 'nested'):
            calls = [base] * nloops
            strat = simrt.Strategy('none')
            # how a loop ends: tasks cancelled first (asyncio.run) or closed by hand with the processing task pending;
            # 'early' = right after the last answer, while retention timers are still armed
            cfg['end'] = rng.choice(['runner', 'runner', 'abrupt', 'early_runner', 'early_abrupt'])
        else:
            calls = []
            for li in range(nloops):
                off = rng.choice([0, 0, B.BT / 4, B.BT])
                calls.append([{'t': c['t'] + off, 'key': c['key']} for c in base])
            strat = (simrt.Strategy('random', rng.choice([0.1, 0.3]), seed=rng.randrange(1 << 30)) if rng.random() < 0.7
                     else simrt.Strategy('pct', d=3, span=1500, seed=rng.randrange(1 << 30)))
        form = rng.choice(['deco', 'deco_opts'])
        r = self.m.run(mode, nloops, form, cfg, calls, strat)
        st = res.stats
        st['executions'] += 1
        st[f'multi_{mode}'] += 1
        if cfg.get('end', 'runner') != 'runner':
            st['multi_loop_closed_abruptly_or_with_timers_armed'] += 1
        res.sig = r.signature
        if r.verdict == 'watchdog' or not r.clean:
            res.dirty = True
        if r.verdict == 'watchdog':
            res.inconclusive = 'watchdog'
            return
        if r.thread_errors or r.verdict is not None:
            res.violate(f'C15:multi-loop-{mode}:fails', f'decorated batcher failed or hung when used from {nloops} loops',
                        verdict=r.verdict, errors=r.thread_errors[:2], blocked=r.blocked)
            res.sample = {'log': r.log[-40:]}
            return
        log = r.log
        loop_of = {}
        for e in log:
            if e[0] == 'call':
                loop_of[e[1]] = e[3]
        for e in log:
            if e[0] == 'bstart':
                lps = {loop_of.get(cid) for _, cid in e[3]}
                if lps != {e[2]}:
                    res.violate(f'C15:multi-loop-{mode}:mixed-batch', 'a batch mixed calls of different loops or ran on a foreign loop',
                                ran_on=e[2], callers_loops=sorted(map(str, lps)))
            elif e[0] == 'pending' and e[2]:
                res.violate(f'C15:multi-loop-{mode}:unanswered', 'a caller on one of the loops was never answered', loop=e[1])
            elif e[0] == 'ret' and e[2] != 'val':
                res.violate(f'C15:multi-loop-{mode}:caller-failed', f'caller received {e[3]}', cid=e[1])
            elif e[0] == 'ret' and e[3][0] != log[[i for i, x in enumerate(log) if x[0] == 'call' and x[1] == e[1]][0]][2]:
                res.violate(f'C15:multi-loop-{mode}:wrong-key', 'value of another key')
        served = {e[1].split('.')[0] for e in log if e[0] == 'ret' and e[2] == 'val'}
        res.nontrivial = len(served) >= 2
        if len(served) >= 2:
            st[f'multi_{mode}_two_or_more_loops_served'] += 1
        if mode in ('successive', 'nested') and nloops > 1 and not res.violations:
            # every later loop must behave like the first (relative times, batch shapes)
            def shape(li):
                out = []
                for e in log:
                    if e[0] == 'call' and e[1].startswith(f'{li}.'):
                        out.append(('call', e[1].split('.')[1], e[2], e[4]))
                    elif e[0] == 'ret' and e[1].startswith(f'{li}.'):
                        out.append(('ret', e[1].split('.')[1], e[2], e[3][0], e[3][2].split('.')[1], e[4]))
                    elif e[0] == 'bstart' and all(c.startswith(f'{li}.') for _, c in e[3]):
                        out.append(('bstart', [(k, c.split('.')[1]) for k, c in e[3]]))
                return out
            first = shape(0)
            for li in range(1, nloops):
                if shape(li) != first:
                    res.violate('C15:multi-loop-successive:later-loop-differs',
                                'a loop used after an earlier one closed did not behave like the first',
                                loop=li, first=first[:10], later=shape(li)[:10])
                    break
        res.sample = {'mode': mode, 'loops': nloops, 'form': form, 'cfg': cfg, 'log': log[:50]}

    def run_segments(self, case, res):
        """One function object wrapped twice with different options, and / or open loops used alternately: the decorated
        wrappers must do exactly what one AsyncBackgroundBatcher per (loop, wrapper) with the given options does."""
        rng = random.Random(case['seed'])
        st = res.stats
        nwrap = rng.choice([1, 2, 2])
        shared = nwrap == 2 and rng.random() < 0.7
        wrappers = []
        for _ in range(nwrap):
            wrappers.append({'size': rng.randint(1, 4), 'conc': rng.randint(1, 3), 'bt': rng.choice([B.BT, B.BT / 2, 2 * B.BT]),
                             'ret': rng.choice([0, 4 * B.BT, 64 * B.BT, 64 * B.BT]), 'form': rng.choice(['deco', 'deco_opts'])})
        nloops = rng.choice([1, 2, 2, 3])
        segments = []
        for si in range(rng.randint(2, 5)):
            calls = []
            t = 0.0
            for _ in range(rng.randint(1, 5)):
                t += rng.choice([0, 0, B.BT / 4, B.BT + B.BT / 16])
                calls.append({'t': t, 'w': rng.randrange(nwrap), 'key': rng.choice('abc')})
            segments.append((rng.randrange(nloops), calls, rng.choice([0, 0, B.BT, 8 * B.BT, 80 * B.BT])))
        bdur = rng.choice([0, B.BT / 4])
        gc_between = rng.random() < 0.3       # a collection while every loop is idle: nothing a wrapper needs may be garbage
        if nloops >= 2 and rng.random() < 0.25:
            for li, calls, _ in segments:
                for c in calls:
                    if rng.random() < 0.4:
                        c['on'] = rng.choice([x for x in range(nloops) if x != li])
        runs = {}
        for how in ('deco', 'ref'):
            r = self.seg.run(how, wrappers, shared, segments, nloops, bdur, gc_between)
            st['executions'] += 1
            if r.verdict == 'watchdog' or not r.clean:
                res.dirty = True
            if r.verdict == 'watchdog':
                res.inconclusive = 'watchdog'
                return
            if r.thread_errors or r.verdict is not None:
                if how == 'ref':
                    res.inconclusive = f'reference run failed: {r.verdict} {r.thread_errors[:1]}'
                    return
                res.violate('C15:segments:fails', 'decorated batchers failed or hung on open loops driven piecewise',
                            verdict=r.verdict, errors=r.thread_errors[:2], blocked=r.blocked)
                res.sample = {'wrappers': wrappers, 'segments': segments, 'log': r.log[-40:]}
                return
            runs[how] = r.log
        st['segment_programs'] += 1
        loops_used = [li for li, _, _ in segments]
        revisit = any(loops_used[i] in loops_used[:i - 0] and loops_used[i] != loops_used[i - 1] and loops_used[i] in loops_used[:i]
                      for i in range(1, len(loops_used)))
        if revisit:
            st['segment_programs_returning_to_an_open_loop'] += 1
        if shared:
            st['segment_programs_one_function_wrapped_twice'] += 1
        if gc_between:
            st['segment_programs_with_collections_while_idle'] += 1
        if any('on' in c for _, calls, _ in segments for c in calls):
            st['segment_programs_with_calls_evaluated_by_another_loop'] += 1
        res.nontrivial = revisit or shared
        if runs['deco'] != runs['ref']:
            i = next((i for i, (a, b) in enumerate(zip(runs['deco'], runs['ref'])) if a != b), min(len(runs['deco']), len(runs['ref'])))
            res.violate('C15:segments:differs', 'decorated wrappers did not behave like one AsyncBackgroundBatcher per loop and wrapper '
                        'with the options given', first_difference_at=i, decorated=runs['deco'][max(0, i - 3):i + 3],
                        reference=runs['ref'][max(0, i - 3):i + 3], shared_function=shared, wrappers=wrappers, segments=segments,
                        nloops=nloops)
        res.sample = {'wrappers': wrappers, 'shared_function_object': shared, 'segments': segments, 'loops': nloops,
                      'log': runs['deco'][:40]}

    def run_buffer(self, case, res):
        A = self.A
        tau = case['timeout']
        out = {}
        st = res.stats
        for form in ('deco_opts', 'direct', 'class'):
            def main(s, form=form):
                def body():
                    loop = aio.new_event_loop()
                    aio.set_event_loop(loop)

                    nfail = [case.get('fail_first', 0)]

                    async def func(args):
                        if nfail[0] > 0:
                            nfail[0] -= 1
                            raise RuntimeError('scripted failure')
                        s.log.append(('fstart', sorted(args), s.now))
                    if form == 'deco_opts':
                        buf = A.buffer_until_timeout(timeout=tau)(func)
                    elif form == 'direct':
                        buf = A.buffer_until_timeout(func, timeout=tau)
                    else:
                        buf = A.BufferAsyncCalls(func, timeout=tau)

                    async def m():
                        if case.get('fail_first'):
                            # history first: a call that fails and is retried until it succeeds
                            buf(0)
                            await buf.wait()
                            s.log.clear()
                            await aio.sleep(2 * tau + 1.0)
                        buf(1)
                        await aio.sleep(tau / 2)
                        buf(2)
                        s.log.append(('last_arrival', s.now))
                        await aio.sleep(4 * tau + 3.0)
                    loop.run_until_complete(m())
                    for t in aio.all_tasks(loop):
                        t.cancel()
                s.spawn(body, 'L')
            r = simrt.execute(main, simrt.Strategy('none'), lines=False, watchdog=30.0)
            st['executions'] += 1
            if not r.clean:
                res.dirty = True
            la = [e for e in r.log if e[0] == 'last_arrival']
            fs = [e for e in r.log if e[0] == 'fstart']
            out[form] = r.log
            if tau == 0:
                # "as soon as the loop is idle": no absolute expectation of how the two arrivals are grouped, but every
                # form must do what the class does (compared below) and deliver both without delay
                got = sorted(x for e in fs for x in e[1])
                if got != [1, 2] or not la or any(e[2] - la[0][1] > EPS for e in fs):
                    res.violate(f'C15:option-not-in-effect:timeout:{form}', 'timeout=0 given but the arguments were not delivered at once',
                                observed=[e for e in r.log][:5], timeout=tau)
                else:
                    st['measured_timeout_zero'] += 1
                    res.nontrivial = True
            elif not fs or not la or abs(fs[0][2] - (la[0][1] + tau)) > EPS or fs[0][1] != [1, 2]:
                res.violate(f'C15:option-not-in-effect:timeout:{form}',
                            f'timeout={tau} given to the {form} form but the flush did not happen `timeout` after the last arrival',
                            observed=[e for e in r.log][:5], timeout=tau)
            else:
                st['option_effects_measured'] += 1
                st['measured_timeout'] += 1
                res.nontrivial = True
        for form in ('deco_opts', 'direct'):
            if out.get(form) != out.get('class') and not res.violations:
                res.violate(f'C15:forms-differ:timeout:{form}', f'buffer_until_timeout in the {form} form did not behave like '
                            'BufferAsyncCalls with the same timeout', timeout=tau, form_log=out.get(form, [])[:6],
                            class_log=out.get('class', [])[:6])
        res.sample = {'timeout': tau, 'log': out.get('deco_opts', [])[:6]}

    def run_cache(self, case, res):
        A = self.A
        st = res.stats
        for form in ('deco_opts', 'direct'):
            def main(s, form=form):
                def body():
                    log = s.log

                    def emit(*ev):
                        log.append(ev + (s.now,))
                    M = RecordingMapping(emit)
                    ninv = [0]

                    async def f(k):
                        ninv[0] += 1
                        emit('inv', ninv[0], k)
                        return (k, ninv[0])
                    cf = A.threadsafe_async_cache(cache=M)(f) if form == 'deco_opts' else A.threadsafe_async_cache(f, cache=M)

                    async def m():
                        for k in range(case['nkeys']):
                            emit('r1', k, await cf(k))
                            emit('r2', k, await cf(k))
                            for key in list(M):
                                if key[0] == (k,):
                                    del M[key]
                            emit('r3', k, await cf(k))
                            emit('r4', k, await cf(k))
                    aio.run(m())
                s.spawn(body, 'L')
            r = simrt.execute(main, simrt.Strategy('none'), lines=False, watchdog=30.0)
            st['executions'] += 1
            if not r.clean:
                res.dirty = True
            log = r.log
            if r.verdict is not None or r.thread_errors:
                res.violate(f'C15:form-fails:cache:{form}', f'cache form failed: {r.verdict} {r.thread_errors[:1]}')
                continue
            sets = [e for e in log if e[0] == 'cache_set']
            invs = [e for e in log if e[0] == 'inv']
            dels = [e for e in log if e[0] == 'cache_del']
            n = case['nkeys']
            if len(sets) != 2 * n or len(invs) != 2 * n or len(dels) != n:
                res.violate(f'C15:option-not-in-effect:cache:{form}',
                            'the mapping given as cache= is not the store in use (stores / recomputations after eviction differ)',
                            stores=len(sets), invocations=len(invs), evictions=len(dels), expected=2 * n)
            else:
                st['option_effects_measured'] += 1
                st['measured_cache'] += 1
                res.nontrivial = True
        res.sample = {'nkeys': case['nkeys'], 'log': log[:12]}
        # one configured decorator object (default cache) applied to two functions, compared with wrapping each directly
        for how in ('options_object', 'direct'):
            def main2(s, how=how):
                def body():
                    async def f1(k):
                        return ('f1', k)

                    async def f2(k):
                        return ('f2', k)
                    if how == 'options_object':
                        deco = A.threadsafe_async_cache()
                        c1, c2 = deco(f1), deco(f2)
                    else:
                        c1, c2 = A.threadsafe_async_cache(f1), A.threadsafe_async_cache(f2)

                    async def m():
                        for k in range(case['nkeys']):
                            s.log.append(('got', how, await c1(k), await c2(k), await c1(k), await c2(k)))
                    aio.run(m())
                s.spawn(body, 'L')
            r2 = simrt.execute(main2, simrt.Strategy('none'), lines=False, watchdog=30.0)
            st['executions'] += 1
            for e in r2.log:
                if e[0] == 'got' and (e[2][0] != 'f1' or e[3][0] != 'f2' or e[4] != e[2] or e[5] != e[3]):
                    res.violate(f'C15:decorator-object-shares-state:{how}',
                                'two functions wrapped by one configured decorator object received each other\'s results',
                                observed=e[2:])
            if r2.verdict is not None or r2.thread_errors:
                res.violate(f'C15:form-fails:cache:{how}', f'{r2.verdict} {r2.thread_errors[:1]}')
            st['decorator_object_reused'] += 1

    def run_case(self, case):
        res = CaseResult()
        k = case['kind']
        if k == 'opt':
            self.run_opt(case, res)
        elif k == 'diff':
            self.run_diff(case, res)
        elif k == 'multi':
            self.run_multi(case, res)
        elif k == 'segments':
            self.run_segments(case, res)
        elif k == 'buffer':
            self.run_buffer(case, res)
        else:
            self.run_cache(case, res)
        res.stats[f'kind_{k}'] += 1
        if res.nontrivial:
            res.stats['nontrivial'] += 1
        return res

    def floors(self, tier):
        k = 1 if tier == 'quick' else 20
        return {'measured_size': 100, 'measured_conc': 100, 'measured_bt': 80, 'measured_ret': 100,
                'measured_timeout': 30, 'measured_cache': 6, 'decorator_object_reused': 6, 'differential_programs': 3000 * k,
                'multi_successive_two_or_more_loops_served': 500 * k,
                'multi_concurrent_two_or_more_loops_served': 500 * k, 'multi_nested_two_or_more_loops_served': 300 * k,
                'multi_loop_closed_abruptly_or_with_timers_armed': 500 * k,
                'segment_programs_returning_to_an_open_loop': 400 * k, 'segment_programs_one_function_wrapped_twice': 400 * k}


def get_check(pid):
    return C15()
