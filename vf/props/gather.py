"""C20 - gather_excs / raise_first_exc (Engine A single loop, virtual delays).

Awaitables (coroutines, tasks, futures) are the harness's: each logs start and
finish and, after a scripted virtual delay, returns a value or raises a unique
instance from a small hierarchy.  Finishing order ranges over every
permutation of the input order.
"""
from __future__ import annotations

import asyncio as aio
import itertools
import random

from vf import simrt
from vf.core import Check, CaseResult, U


class B(Exception):
    pass


class S(B):
    pass


class Un(Exception):
    pass


class H(BaseException):
    pass


class Falsy(B):
    """an exception that is falsy (its truth value delegates to a response's `ok`, or its length is the number of
    sub-errors and there are none): still an exception like any other"""
    def __bool__(self):
        return False

    def __len__(self):
        return 0


HIER = {'B': B, 'S': S, 'Un': Un, 'H': H, 'F': Falsy}
ONLY = {'BaseException': BaseException, 'Exception': Exception, 'B': B, 'S': S, 'Un': Un, 'H': H}
# 'Cancel': the awaitable ends with a CancelledError of its own (e.g. it awaited something that somebody else
# cancelled) while nobody cancels the caller - for gather_excs this is a failure like any other BaseException
# 'G' / 'BG': the awaitable fails with an exception *group* (a TaskGroup inside it, say): the group is what was raised
# 'SAI' / 'TO' / 'KE': builtin classes with a meaning of their own elsewhere (StopAsyncIteration ends async iteration,
# TimeoutError is what asyncio's timeouts raise, KeyError is what look-ups raise): here they are failures like any other
OUTCOMES = [None, 'B', 'S', 'Un', 'H', 'Cancel', 'G', 'BG', 'SAI', 'TO', 'KE', 'F']
BUILTIN = {'SAI': StopAsyncIteration, 'TO': TimeoutError, 'KE': KeyError}
ONLY['ExceptionGroup'] = ExceptionGroup
# 'done': a future that is already settled (result or exception) when gather_excs is called
KINDS = ['coro', 'task', 'future', 'done']
ONLY['CancelledError'] = aio.CancelledError
ONLY['StopAsyncIteration'] = StopAsyncIteration
ONLY['LookupError'] = LookupError


class C20(Check):
    pid = 'C20'
    budget = {'quick': 30.0, 'thorough': 330.0}
    anchors = ('gather_excs', 'raise_first_exc')
    assumptions = [
        'single event loop in virtual time: delays are distinct multiples of the grid unit so the finishing order is exactly '
        'the scripted permutation',
        'only raised exceptions are generated; an awaitable that returns an exception object as its value is outside the domain',
        'an awaitable that ends in a CancelledError of its own is judged by type, not identity (asyncio.gather reports a '
        'cancelled child as a fresh CancelledError); nobody ever cancels the caller',
    ]
    rule = ('cases = lists of 0-5 awaitables (coroutine / task / future / already-settled future) each returning or raising '
            'B(Exception), S(B), Un(Exception), H(BaseException), a CancelledError of its own, an exception group, StopAsyncIteration, '
            'TimeoutError, KeyError or a falsy exception (the last six sampled only; 15 % of the samples share one exception object among '
            'the awaitables with the same outcome) after a scripted delay; every outcome combination x every finishing-order '
            'permutation x every `only` in {BaseException, Exception, B, S, Un, H, ExceptionGroup, CancelledError, StopAsyncIteration, LookupError} for <= 3 awaitables (thorough 4), sampled at 4-5; '
            'both gather_excs and raise_first_exc; non-trivial = >= 2 awaitables with >= 1 failure and a finishing order that '
            'differs from input order, or >= 2 failures; distinct = distinct cases')

    def setup(self):
        import aiuti.asyncio as A
        simrt.prepare([A])
        self.A = A

    def cases(self, tier, seed):
        maxn = 3 if tier == 'quick' else 4
        for n in range(0, maxn + 1):
            for combo in itertools.product(range(6), repeat=n):
                for perm in itertools.permutations(range(n)):
                    for oi, only in enumerate(ONLY):
                        yield {'out': list(combo), 'order': list(perm), 'only': only,
                               'kinds': [KINDS[(i + oi + sum(combo)) % len(KINDS)] for i in range(n)]}
        rng = random.Random(seed * 7 + 1)
        nrand = 25000 if tier == 'quick' else 500000
        nbig = 60 if tier == 'quick' else 1500
        every = nrand // nbig
        for j in range(nrand):
            n = rng.choice([4, 5, 5])
            perm = list(range(n))
            rng.shuffle(perm)
            yield {'out': [rng.randrange(len(OUTCOMES)) for _ in range(n)], 'order': perm,
                   'only': rng.choice(list(ONLY)), 'kinds': [rng.choice(KINDS) for _ in range(n)],
                   'ties': rng.random() < 0.2, 'shared': rng.random() < 0.15,
                   # gathers that take seconds or a minute (virtual), not milliseconds
                   'scale': rng.choice([1, 1, 1, 2000, 20000]),
                   # the loop's task factory (3.12: eager tasks run their first step inside create_task), awaitables that
                   # finish without ever suspending, and a caller that was cancelled once before, caught it and went on
                   # (its Task.cancelling() count stays at 1 for life)
                   'factory': rng.choice(['default', 'default', 'eager', 'custom']),
                   'instant': [i for i in range(n) if rng.random() < rng.choice([0, 0, 0.3, 0.7])],
                   'caller': rng.choice(['plain', 'plain', 'cancelled_before', 'uncancelled_before', 'in_timeout', 'in_taskgroup'])}
            if j % every == 0:
                # many awaitables at once, on two event loops one after the other in the same process (interleaved with
                # the sampled cases so that a time-truncated run covers both)
                n = rng.choice([65, 70, 100, 130, 200])
                perm = list(range(n))
                rng.shuffle(perm)
                out = [0] * n
                for _ in range(rng.randint(1, 6)):
                    out[rng.randrange(n)] = rng.randrange(1, 5)
                yield {'out': out, 'order': perm, 'only': rng.choice(['BaseException', 'Exception', 'B']),
                       'kinds': [rng.choice(KINDS[:3]) for _ in range(n)], 'big': True}

    def run_case(self, case):
        A = self.A
        n = len(case['out'])
        only = ONLY[case['only']]
        # order[j] = index of the awaitable that finishes j-th
        rank = {idx: j for j, idx in enumerate(case['order'])}
        box = {}

        def main(s):
            def body():
                loop = aio.new_event_loop()
                aio.set_event_loop(loop)
                nonlocal_loop = [loop]
                log = s.log

                def make(which):
                    def mk(i, o):
                        name = OUTCOMES[o]
                        if name is None:
                            return None
                        if name == 'Cancel':
                            return aio.CancelledError(i, which)
                        if name == 'G':
                            return ExceptionGroup(f'group {i} {which}', [S(i, 'leaf'), Un(i, 'leaf')])
                        if name == 'BG':
                            return BaseExceptionGroup(f'bgroup {i} {which}', [H(i, 'leaf'), B(i, 'leaf')])
                        if name in BUILTIN:
                            return BUILTIN[name](i, which)
                        return HIER[name](i, which)
                    excs = [mk(i, o) for i, o in enumerate(case['out'])]
                    if case.get('shared'):
                        # several awaitables fail with the very same exception object (one failure fanned out to all
                        # who waited for it, as the library's own batcher does): each of them failed
                        first = {}
                        for i, o in enumerate(case['out']):
                            if excs[i] is not None and not isinstance(excs[i], aio.CancelledError):
                                excs[i] = first.setdefault(o, excs[i])

                    async def aw(i):
                        log.append(('start', which, i, s.now))
                        try:
                            d = (rank[i] + 1) * U if not case.get('ties') else ((rank[i] // 2) + 1) * U
                            d *= case.get('scale', 1)
                            if i not in case.get('instant', ()):
                                await aio.sleep(d)
                            if excs[i] is not None:
                                raise excs[i]
                            return ('v', i)
                        except aio.CancelledError as ce:
                            if ce is not excs[i]:
                                log.append(('cancelled', which, i, s.now))
                            raise
                        finally:
                            log.append(('finish', which, i, s.now))

                    aws = []
                    for i in range(n):
                        k = case['kinds'][i]
                        if k == 'done' and not isinstance(excs[i], aio.CancelledError):
                            fut = nonlocal_loop[0].create_future()
                            log.append(('start', which, i, s.now))
                            log.append(('finish', which, i, s.now))
                            if excs[i] is not None:
                                fut.set_exception(excs[i])
                            else:
                                fut.set_result(('v', i))
                            aws.append(fut)
                        elif k == 'coro' or k == 'done':
                            aws.append(aw(i))
                        elif k == 'task':
                            aws.append(nonlocal_loop[0].create_task(aw(i)))
                        else:
                            fut = nonlocal_loop[0].create_future()
                            t = nonlocal_loop[0].create_task(aw(i))

                            def copy(t, fut=fut):
                                if t.cancelled():
                                    fut.cancel()
                                elif t.exception() is not None:
                                    fut.set_exception(t.exception())
                                else:
                                    fut.set_result(t.result())
                            t.add_done_callback(copy)
                            aws.append(fut)
                    return aws, excs

                async def m():
                    base = len(log)
                    aws, excs = make('g')
                    got = []
                    finished_at_first = None
                    async for e in A.gather_excs(aws, only):
                        if finished_at_first is None:
                            finished_at_first = sum(1 for x in log[base:] if x[0] == 'finish' and x[1] == 'g')
                        got.append(e)
                    box['g'] = (got, excs, finished_at_first,
                                sum(1 for x in log[base:] if x[0] == 'finish' and x[1] == 'g'))
                    aws, excs = make('r')
                    try:
                        r = await A.raise_first_exc(aws, only)
                        box['r'] = ('ret', r, excs)
                    except BaseException as e:     # noqa
                        box['r'] = ('raise', e, excs)
                    box['r_finished'] = sum(1 for x in log[base:] if x[0] == 'finish' and x[1] == 'r')
                    # leave nothing behind
                    await aio.sleep((n + 2) * U * case.get('scale', 1))
                    box['late_finish'] = sum(1 for x in log if x[0] == 'finish')
                fac = case.get('factory', 'default')
                if fac == 'eager':
                    loop.set_task_factory(aio.eager_task_factory)
                elif fac == 'custom':
                    class NamedTask(aio.Task):
                        pass
                    loop.set_task_factory(lambda lp, coro, **kw: NamedTask(coro, loop=lp, **kw))
                caller = case.get('caller', 'plain')

                async def outer():
                    if caller in ('cancelled_before', 'uncancelled_before'):
                        me = aio.current_task()
                        loop.call_later(U, me.cancel)
                        try:
                            await aio.sleep(50 * U)
                        except aio.CancelledError:
                            if caller == 'uncancelled_before':
                                me.uncancel()
                        log.append(('caller_cancelling', me.cancelling()))
                        await m()
                    elif caller == 'in_timeout':
                        async with aio.timeout(10 ** 7 * U):
                            await m()
                    elif caller == 'in_taskgroup':
                        async with aio.TaskGroup() as tg:
                            await tg.create_task(m())
                    else:
                        await m()
                loop.run_until_complete(outer())
                loop.close()
                if case.get('big'):
                    # a second event loop in the same process: module-level state must not be tied to the first
                    box['first'] = dict(box)
                    log.append(('second_loop',))
                    loop2 = aio.new_event_loop()
                    aio.set_event_loop(loop2)
                    nonlocal_loop[0] = loop2
                    loop2.run_until_complete(m())
                    loop2.close()
            s.spawn(body, 'L')

        r = simrt.execute(main, simrt.Strategy('none'), lines=False, max_steps=50000, watchdog=30.0)
        res = CaseResult()
        st = res.stats
        if r.verdict == 'watchdog' or not r.clean:
            res.dirty = True
        if r.verdict is not None or r.thread_errors or 'r' not in box:
            res.violate('C20:did-not-finish', f'gather_excs/raise_first_exc did not complete: {r.verdict} {r.thread_errors[:1]}')
            return res
        st['executions'] += 1
        if case.get('big'):
            st['big_two_loop_cases'] += 1
            # the first loop's round is judged with the same rules (recursively, on a copy of what it recorded)
            first = box.get('first')
            if first is None or 'r' not in first:
                res.violate('C20:did-not-finish', 'the first of two loops did not complete')
                return res
            for rnd, bx in (('first loop', first), ('second loop', box)):
                g_, e_, ff_, fe_ = bx['g']
                ex_ = [e for e in e_ if e is not None and isinstance(e, only)]
                if len(g_) != len(ex_) or any(a is not b for a, b in zip(g_, ex_)):
                    res.violate('C20:wrong-exceptions', f'{rnd}: yielded exceptions are not exactly the raised instances of `only` in input order',
                                got=[repr(e) for e in g_][:8], expected=[repr(e) for e in ex_][:8])
                if fe_ != n or bx['r_finished'] != n:
                    res.violate('C20:not-run-to-completion', f'{rnd}: some awaitable never ran to completion', finished=fe_, total=n)
                k_, v_, e2_ = bx['r']
                ex2_ = [e for e in e2_ if e is not None and isinstance(e, only)]
                if (ex2_ and (k_ != 'raise' or v_ is not ex2_[0])) or (not ex2_ and (k_ != 'ret' or v_ is not None)):
                    res.violate('C20:raise_first_exc-wrong', f'{rnd}: raise_first_exc gave the wrong answer', got=repr(v_)[:100])
            res.nontrivial = True
            st['nontrivial'] += 1
            res.sample = {'big': True, 'n': n, 'only': case['only']}
            return res
        got, excs, fin_first, fin_end = box['g']
        exp = [e for e in excs if e is not None and isinstance(e, only)]

        def same(a, b):
            # a child that ended in CancelledError is reported by asyncio.gather as *a* CancelledError, not
            # necessarily the instance that was raised: identity is demanded for everything else
            if isinstance(b, aio.CancelledError):
                return isinstance(a, aio.CancelledError)
            return a is b

        if len(got) != len(exp) or any(not same(a, b) for a, b in zip(got, exp)):
            res.violate('C20:wrong-exceptions', 'yielded exceptions are not exactly the raised instances of `only` in input order',
                        got=[repr(e) for e in got], expected=[repr(e) for e in exp], only=case['only'])
        if got and fin_first != n:
            res.violate('C20:yield-before-all-finished', 'an exception was yielded before every awaitable had finished',
                        finished=fin_first, total=n)
        if fin_end != n:
            res.violate('C20:not-run-to-completion', 'some awaitable never finished', finished=fin_end, total=n)
        if any(e[0] == 'cancelled' for e in r.log):
            res.violate('C20:cancelled-sibling', 'a failure of one awaitable cancelled another',
                        cancelled=[e[1:3] for e in r.log if e[0] == 'cancelled'])
        kind, val, excs2 = box['r']
        exp2 = [e for e in excs2 if e is not None and isinstance(e, only)]
        if exp2:
            if kind != 'raise' or not same(val, exp2[0]):
                res.violate('C20:raise_first_exc-wrong', 'raise_first_exc did not raise the first matching exception in input order',
                            got=repr(val), expected=repr(exp2[0]))
        elif kind != 'ret' or val is not None:
            res.violate('C20:raise_first_exc-wrong', 'raise_first_exc did not return None although nothing matched', got=repr(val))
        if box['r_finished'] != n:
            res.violate('C20:not-run-to-completion', 'raise_first_exc returned/raised before every awaitable had finished',
                        finished=box['r_finished'], total=n)
        nfail = sum(1 for e in excs if e is not None)
        reordered = case['order'] != sorted(case['order'])
        if nfail >= 2:
            st['two_or_more_failures'] += 1
        if reordered and nfail:
            st['finish_order_differs_with_failure'] += 1
        if any(isinstance(e, S) for e in exp) and only in (B, Exception, BaseException):
            st['subclass_matched'] += 1
        if any(isinstance(e, H) for e in excs if e is not None):
            st['baseexception_only_raised'] += 1
        if any(isinstance(e, aio.CancelledError) for e in excs if e is not None):
            st['own_cancellederror_raised'] += 1
        if any(isinstance(e, BaseExceptionGroup) for e in excs if e is not None):
            st['exception_group_raised'] += 1
        if case.get('scale', 1) > 1:
            st['long_running_gather'] += 1
        if 'done' in case['kinds']:
            st['already_settled_future_in_input'] += 1
        if case.get('factory') == 'eager':
            st['eager_task_factory'] += 1
            if case.get('instant'):
                st['eager_and_instant_awaitable'] += 1
        if case.get('instant'):
            st['awaitable_finishing_without_suspending'] += 1
        if any(e[0] == 'caller_cancelling' and e[1] > 0 for e in r.log):
            st['caller_with_stale_cancel_request'] += 1
        if case.get('caller') in ('in_timeout', 'in_taskgroup'):
            st['caller_inside_timeout_or_taskgroup'] += 1
        res.nontrivial = n >= 2 and ((nfail >= 1 and reordered) or nfail >= 2)
        if res.nontrivial:
            st['nontrivial'] += 1
            res.sample = {'case': case, 'yielded': [repr(e) for e in got], 'raise_first_exc': (kind, repr(val)),
                          'log': r.log[:20]}
        return res

    def floors(self, tier):
        k = 1 if tier == 'quick' else 10
        return {'exception_group_raised': 3000 * k, 'long_running_gather': 3000 * k, 'big_two_loop_cases': 40 * k,
                'own_cancellederror_raised': 5000 * k, 'already_settled_future_in_input': 5000 * k, 'nontrivial': 10000 * k, 'two_or_more_failures': 8000 * k, 'finish_order_differs_with_failure': 8000 * k,
                'subclass_matched': 3000 * k, 'baseexception_only_raised': 5000 * k,
                'eager_and_instant_awaitable': 1000 * k, 'caller_with_stale_cancel_request': 1500 * k,
                'caller_inside_timeout_or_taskgroup': 2500 * k}

    def extra_evidence(self, tier, agg):
        return {'exhaustive': False,
                'exhaustive_note': f'all outcome combinations x finishing-order permutations x filters for <= {3 if tier == "quick" else 4} '
                                   'awaitables enumerated completely; 4-5 awaitables sampled'}


def get_check(pid):
    return C20()
