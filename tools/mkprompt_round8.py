import json, sys, subprocess, os
props = {json.loads(l)['id']: json.loads(l) for l in open('/verif/properties.jsonl')}
THEMES = '''## What kind of changes (round 8)
Earlier rounds already produced: deletions / loosened conditions, new caches / fast paths / timers, multi-step histories, cooperating sites, fork / GC / descriptor reuse, boundary-wrong bug fixes (ties, zero / None options), exception-class boundaries, look-alike API substitutions, leaking per-object state, weak references / finalizers, re-entrancy from the library's own callbacks, unusual user-object protocols (__eq__/__hash__/__bool__/__fspath__), clocks, two helpers used together. Do something DIFFERENT this time. Write TWO changes (a third only if you have a really good one), each using a different one of these themes:
  (k) *the execution environment of asyncio / threading / the OS*: asyncio.eager_task_factory or a custom task factory, loop debug mode, a loop.set_exception_handler, contextvars carried (or not) across the library's hand-offs, a task that is cancelled *while it is being created* or before its first step, uncancel()/cancelling() counts, asyncio.timeout / TaskGroup / shield wrapped around the library call, signals / EINTR, a changed working directory or relative / symlinked paths, umask / read-only files, threads started before or after the object was made;
  (l) *failure inside the library's own cleanup or bookkeeping*: an error raised while releasing / closing / answering / evicting / logging (set_result on an already-cancelled future, InvalidStateError, os.close / unlink failing, a user callback or mapping raising in the middle of a loop over several waiters) that makes the REST of the bookkeeping be skipped, so the second, third... party is affected, not the first;
  (m) *counts and scale*: behaviour that differs only past a natural threshold of an optimisation the change introduces or adjusts (chunked wake-ups, slicing, islice / batched, a bounded queue or semaphore, recursion depth, many keys / many waiters / many batches / long inputs, a counter that wraps or is compared with the wrong bound), with no magic user values;
  (n) *second life*: the same object used again after an end state - after shutdown / cancel / close / exception / timeout / loop close, on a second event loop once the first was closed, decorated twice, used as a method on two instances (per-instance vs per-class state), copied / deep-copied / pickled, or after functools.wraps metadata is consulted;
  (o) *partial progress*: an operation interrupted half-way (cancelled between two awaits, exception between two statements, generator closed early, iterator abandoned, timeout exactly while handing over) leaving state that a LATER, perfectly normal operation trips over.
Each change should look like something a maintainer could merge after a quick review (give it an honest-looking comment or docstring), be small (typically 5-40 changed lines), and be such that a randomized stress test with *typical* inputs would probably not notice it: say precisely what rare input, schedule, fault or history it needs.
Do not merely revert or weaken the mechanism the property statement describes in an obvious way, and do not special-case magic values. The violation your demo shows must be a violation of the property AS STATED, inside its "quantified over" range - read that range carefully; a misbehaviour outside it does not count.
'''
def prompt(pid):
    p = props[pid]; wt = f'/tmp/seed/{pid}'
    return f'''You are helping to test a verification harness for a small Python library. You will NOT see the harness. Your job is to write two *realistic, subtle* source changes to the library, each of which silently breaks ONE stated semantic property while the library still compiles and its own test-suite still passes.

## The library
A git worktree of the library (aiudirog/Aiuti: asyncio helpers, a file lock, itertools/parsing helpers) is at {wt} . Work ONLY inside that directory (and {wt}/_seeded/ below it). Never touch /repo or /verif (do not even read /verif), never commit, never edit anything under tests/ or docs/.
Python is /venv/bin/python (3.12). The suite is run with:
    cd {wt} && /venv/bin/python -m pytest -q -p no:cacheprovider --timeout=120
On the untouched tree it prints "2 failed, 42 passed" (the 2 failures are network doctests of to_async_iter / to_sync_iter: the sandbox has no network). With each of your changes it must print exactly the same.

## The property your changes must break (this text is all you get)
ID: {pid}
Title: {p['title']}
Statement: {p['statement']}
Quantified over: {p['quantifier']['text'] if isinstance(p['quantifier'],dict) else p['quantifier']}
Where it lives: {', '.join(p['anchors']['files']) if isinstance(p['anchors'],dict) else p['anchors']}

{THEMES}
## What to deliver, for each change, in {wt}/_seeded/<short-kebab-name>/
1. patch.diff  - `git diff -- aiuti` of the change against the untouched worktree (must apply with `git apply` to a clean checkout);
2. demo.py     - a self-contained program (only the library and the stdlib; run as `PYTHONPATH={wt} /venv/bin/python demo.py`, at most ~20 s) that demonstrates a violation OF THE STATED PROPERTY: exit status 1 and a line starting with "VIOLATION:" when the change is applied, exit status 0 on the untouched tree. It should be deterministic or nearly so (retry internally if it needs luck). It must not rely on anything outside the stated property (e.g. not on private attribute names that your own change introduced, unless only to *force* a schedule);
3. meta.json   - {{"property": "{pid}", "name": "<short-kebab-name>", "theme": "k|l|m|n|o", "summary": "<what was changed, 1-3 sentences>", "needs": "<the rare input / schedule / fault / history that makes it show, and what then goes wrong for the user>", "ran": ["<each command you ran to confirm, with its observed outcome>"]}}
Procedure per change: make the edit in the worktree; run the suite (must stay 2 failed, 42 passed); run demo.py (must exit 1); `git diff -- aiuti > .../patch.diff`; `git checkout -- aiuti`; run demo.py again (must exit 0); `git apply --check .../patch.diff`. Leave the worktree clean (`git status --short` shows only _seeded/) when you finish.

Finish with a short plain-text report: the names, one line each on what they need. If after honest effort you can only produce one, say so.
'''
for pid in sys.argv[1:]:
    wt = f'/tmp/seed/{pid}'
    if not os.path.exists(wt):
        subprocess.check_call(['git','-C','/repo','worktree','add','-q','--detach',wt,'HEAD'])
    os.makedirs(wt+'/_seeded', exist_ok=True)
    open(f'/tmp/seed/prompt_{pid}.txt','w').write(prompt(pid))
