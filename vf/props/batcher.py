"""C04 / C09 / C10 / C11 - AsyncBackgroundBatcher under SimRT (single loop, virtual time).

The batch function is the harness's: it logs every batch (identity, contents,
start/end), every yield and every raise; each call passes a unique argument
and callers log their outcome.  Four oracles judge the same kind of history.
"""
from __future__ import annotations

import asyncio as aio
import collections
import random

from vf import simrt
from vf.core import Check, CaseResult, HarnessError, U, EPS

BT = 64 * U
M = BT / 64            # judging margin around exact timer ties
KEYS = 'abcd'


class Arg:
    """Argument whose str() is the key, so default keys can be exercised while the
    object still carries the call id; two different Args can have equal str()."""
    __slots__ = ('key', 'cid')

    def __init__(self, key, cid):
        self.key = key
        self.cid = cid

    def __str__(self):
        return self.key

    def __repr__(self):
        return f'Arg({self.key!r},{self.cid})'


class UArg(Arg):
    """Argument whose str() is different for every call: with an explicit key, str(arg) must play no part"""
    __slots__ = ()

    def __str__(self):
        return f'{self.key}#{self.cid}'


class CIKey(str):
    """a key type with its own equality: case-insensitive identifiers"""
    def __eq__(self, other):
        return isinstance(other, str) and self.lower() == other.lower()

    def __ne__(self, other):
        return not self.__eq__(other)

    def __hash__(self):
        return hash(self.lower())


class EqArg(Arg):
    """Arguments that all compare equal and hash alike although they print differently (as 1, 1.0 and True do):
    the key of a request is its str(), not its identity under ==."""
    __slots__ = ()

    def __eq__(self, other):
        return isinstance(other, Arg)

    def __hash__(self):
        return 7


class _LookupFailed(KeyError):
    pass


EXC_CLASSES = {'HarnessError': HarnessError, 'KeyError': KeyError, 'LookupSubclass': _LookupFailed, 'StopIteration': StopIteration,
               'StopAsyncIteration': StopAsyncIteration, 'TimeoutError': TimeoutError, 'ValueError': ValueError,
               'RuntimeError': RuntimeError, 'OSError': OSError}


def gen(rng, flavour):
    """flavour: c04 | c09 | c10 | c11"""
    cfg = {'bt': BT, 'size': rng.randint(1, 5), 'conc': rng.randint(1, 3),
           'ret': rng.choice([0, 0, BT / 2, 8 * BT]),
           'bdur': rng.choice([0, BT / 4, BT, 4 * BT]), 'idur': rng.choice([0, 0, BT / 8]),
           'tail': rng.choice([0, 0, BT / 2, 2 * BT]) if flavour in ('c10', 'c04') else 0,
           'order': rng.choice(['fwd', 'rev', 'shuf']),
           'form': rng.choice(['class', 'class', 'deco', 'deco_opts']),
           'explicit_key': rng.choice([True, True, 'prefixed', False, 'emptyone'])}
    if flavour == 'c10':
        gaps = [0, 0, BT / 4, BT - BT / 16, BT, BT + BT / 16, 2 * BT + BT / 4, 5 * BT]
        n = rng.randint(1, 12)
        nkeys = 0                      # every call its own key
        cfg['ret'] = 0
    elif flavour == 'c11':
        R = cfg['ret'] = rng.choice([0, BT / 2, 8 * BT])
        gaps = [0, BT / 4, BT, BT + cfg['bdur'], R, R - R / 16 if R else BT / 2, R + R / 16 if R else 2 * BT,
                BT + cfg['bdur'] + R, BT + cfg['bdur'] + R + BT / 16, 2 * R + 3 * BT]
        n = rng.randint(2, 10)
        nkeys = rng.randint(1, 3)
        cfg['size'] = rng.randint(1, 4)
    else:
        gaps = [0, 0, BT / 4, BT - BT / 16, BT, BT + BT / 16, 2 * BT + BT / 4]
        n = rng.randint(1, 10 if flavour == 'c04' else 8)
        nkeys = rng.randint(2, 4)
    if flavour == 'c04':
        behs = ['val', 'val', 'val', 'exc', 'omit', 'raise', 'twice', 'unknown', 'steal']
    elif flavour == 'c09':
        behs = ['val', 'val', 'val', 'exc', 'raise'] if rng.random() < 0.5 else ['val', 'val', 'exc']
    elif flavour == 'c11':
        behs = ['val', 'val', 'exc', 'raise']
    else:
        behs = ['val']
    delta = rng.choice([0, 0, 0, U / 64, -U / 64])
    t = 0.0
    calls = []
    for i in range(n):
        g = rng.choice(gaps)
        if g and delta and rng.random() < 0.3:
            g = max(0.0, g + delta)
        t += g
        key = KEYS[rng.randrange(nkeys)] if nkeys else f'k{i}'
        if flavour == 'c10' and calls and rng.random() < 0.2:
            key = rng.choice(calls)['key']        # repeats a key: usually served from the pending request, not enqueued
        c = {'t': t, 'key': key, 'beh': rng.choice(behs), 'cancel': None, 'how': None}
        if flavour == 'c09' and rng.random() < 0.4:
            # queued / running before its result / after its result / after the batch
            c['cancel'] = rng.choice([0, BT / 4, BT / 2, BT + cfg['bdur'] / 2, BT + cfg['bdur'],
                                      BT + cfg['bdur'] + cfg['idur'], BT + cfg['bdur'] + 4 * cfg['idur'] + U,
                                      cfg['bdur'] / 2, cfg['bdur'] + U, 3 * BT + cfg['bdur']])
            c['how'] = rng.choice(['cancel', 'timeout', 'waitfor'])
        calls.append(c)
    if flavour == 'c10' and rng.random() < 0.2:
        # impatient callers: some (sometimes all) give up before their batch is handed over; what the batch function is
        # given must still be 1..max_batch_size items in arrival order
        everyone = rng.random() < 0.4
        for c in calls:
            if everyone or rng.random() < 0.3:
                c['cancel'] = rng.choice([0, BT / 4, BT / 2, BT - BT / 16])
                c['how'] = rng.choice(['cancel', 'timeout', 'waitfor'])
        cfg['impatient'] = True
    if flavour == 'c11' and rng.random() < 0.15:
        # a caller keeps the loop busy with synchronous work right before it calls (timers run late); only the clauses
        # that do not depend on the loop being on time are judged for these programs
        R = cfg['ret']
        for c in rng.sample(calls, min(len(calls), rng.randint(1, 2))):
            c['block'] = rng.choice([BT / 2, BT + cfg['bdur'], R + BT / 4 if R else 2 * BT, R / 2 if R else BT, 2 * R + 3 * BT])
        cfg['blocked_loop'] = True
    # the batch function may fail *after* it has yielded every result (while closing its connection, say)
    if flavour in ('c04', 'c11') and rng.random() < 0.4:
        cfg['exc_class'] = rng.choice(sorted(EXC_CLASSES))
    if flavour in ('c04', 'c11') and rng.random() < 0.15:
        cfg['args_equal'] = True
    if flavour in ('c04', 'c10', 'c11') and rng.random() < 0.2:
        cfg['fn_kind'] = rng.choice(['partial', 'instance', 'plain_iter'])
    if flavour in ('c04', 'c10', 'c11') and rng.random() < 0.15:
        cfg['nest'] = rng.choice(['new', 'new', 'same', 'other'])
    if flavour == 'c09' and rng.random() < 0.25:
        for c in calls:
            if c['cancel'] is None and rng.random() < 0.5:
                c['forget'] = True
        cfg['gc_at'] = sorted(rng.choice([0, BT / 4, BT / 2, BT, BT + cfg['bdur'] / 2, BT + cfg['bdur'] + BT / 8]) for _ in range(rng.randint(1, 3)))
    if flavour == 'c09' and rng.random() < 0.2:
        cfg['nest_await'] = rng.choice([BT / 4, cfg['bdur'] / 2 + BT / 8, BT + cfg['bdur'] / 2])
    if flavour == 'c11' and cfg['explicit_key'] is True and rng.random() < 0.3:
        cfg['explicit_key'] = 'ci'
    if flavour == 'c11' and cfg['ret'] and rng.random() < 0.3:
        cfg['gc_at'] = sorted(rng.choice([BT / 2, BT + cfg['bdur'] + BT / 8, 2 * BT + cfg['bdur'], cfg['ret'] / 2 + BT + cfg['bdur']])
                              for _ in range(rng.randint(1, 2)))
    if flavour == 'c11' and rng.random() < 0.3:
        for c in rng.sample(calls, min(len(calls), rng.randint(1, 2))):
            c['again'] = True
    cfg['raise_end'] = rng.choice([None, None, None, 'HarnessError', 'ConnectionError', 'TimeoutError']) \
        if flavour in ('c04', 'c10') else None
    muts = []
    if flavour == 'c10' and rng.random() < 0.3:
        for _ in range(rng.randint(1, 2)):
            muts.append({'t': rng.choice(gaps) + rng.choice([0, t / 2, t]), 'size': rng.randint(1, 5)})
    return {'cfg': cfg, 'calls': calls, 'muts': muts}


class BatcherHarness:
    def __init__(self, A):
        self.A = A

    def run(self, prog, fresh=0, seed=0, form=None, loops=1):
        A = self.A
        cfg = prog['cfg']
        form = form or cfg['form']
        rng = random.Random(seed)

        def main(s):
            log = s.log

            def emit(*ev):
                if not s.dead:
                    log.append(ev + (s.now,))

            box = {'nested': None, 'nested_left': 3, 'keys': []}
            bid = [0]
            running = [0]
            uid = [0]
            beh = {}

            def eff_key_of(c):
                if cfg['explicit_key'] == 'emptyone':
                    # one of the explicit keys is the empty string: a key like any other
                    return '' if c['key'] == 'a' else c['key']
                return 'K' + c['key'] if cfg['explicit_key'] == 'prefixed' else c['key']

            async def fn(batch):
                bid[0] += 1
                b = bid[0]
                items = list(batch)
                running[0] += 1
                emit('bstart', b, [(k, a.cid) for k, a in items], running[0])
                try:
                    if cfg['bdur']:
                        await aio.sleep(cfg['bdur'])
                    if cfg['order'] == 'rev':
                        items = items[::-1]
                    elif cfg['order'] == 'shuf':
                        rng.shuffle(items)
                    for k, a in items:
                        if cfg['idur']:
                            await aio.sleep(cfg['idur'])
                        bh = beh.get(a.cid, 'val')
                        uid[0] += 1
                        u = uid[0]
                        if cfg.get('nest') and box.get('nested') is not None and u % 3 == 0 and box['nested_left'] > 0:
                            # the batch function itself asks its batcher for something (not awaited here: queued like any call)
                            box['nested_left'] -= 1
                            nk = {'new': f'n{u}', 'same': k, 'other': (box['keys'][u % len(box['keys'])] if box['keys'] else k)}[cfg['nest']]
                            box['nested'](nk, 2000 + u)
                        if cfg.get('nest_await') and box.get('nested_await') is not None and box['nested_left'] > 0 and u % 2 == 0:
                            # the batch function itself waits (for a while) for another key of its own batcher
                            box['nested_left'] -= 1
                            nk = box['keys'][u % len(box['keys'])] if box['keys'] else k
                            if nk not in {kk for kk, _ in items}:
                                try:
                                    await aio.wait_for(box['nested_await'](nk, 3000 + u), cfg['nest_await'])
                                except (TimeoutError, aio.TimeoutError):
                                    pass
                        if bh == 'omit':
                            emit('omit', b, k)
                            continue
                        if bh == 'raise':
                            emit('braise', b, u)
                            err = EXC_CLASSES[cfg.get('exc_class', 'HarnessError')]('batch', b, u)
                            err.hx = ('batch', b, u)
                            raise err
                        if bh == 'unknown':
                            emit('yield', b, f'unknown-{u}', 'val', u)
                            yield f'unknown-{u}', ('unknown', b, u)
                        if bh == 'steal':
                            # yields a key it was not given but which another call (maybe pending elsewhere) uses
                            others = sorted({eff_key_of(c) for c in prog['calls']} - {kk for kk, _ in items})
                            if others:
                                sk = others[u % len(others)]
                                emit('yield', b, sk, 'val', u)
                                yield sk, ('stolen', b, u)
                        if bh == 'exc':
                            # the yielded failure may be of any Exception class (a per-item `except Exception as e: yield k, e`)
                            out = EXC_CLASSES[cfg.get('exc_class', 'HarnessError')](k, b, u)
                            out.hx = (k, b, u)          # (OSError and its subclasses rearrange their args)
                        else:
                            out = (k, b, a.cid, u)
                        emit('yield', b, k, 'exc' if bh == 'exc' else 'val', u)
                        yield k, out
                        if bh == 'twice':
                            uid[0] += 1
                            emit('yield', b, k, 'val', uid[0])
                            yield k, (k, b, a.cid, uid[0])
                    if cfg.get('tail'):
                        await aio.sleep(cfg['tail'])      # work after the last result (a commit, say)
                    if cfg.get('raise_end'):
                        emit('braise_end', b, cfg['raise_end'])
                        raise {'HarnessError': HarnessError, 'ConnectionError': ConnectionError,
                               'TimeoutError': TimeoutError}[cfg['raise_end']]('after the last result', b)
                finally:
                    running[0] -= 1
                    emit('bend', b)

            # the batch function as the batcher sees it: a plain async generator function, a functools.partial of one, an
            # instance with an async-generator __call__ (neither has __name__), or a plain function returning an object
            # that only has __aiter__ / __anext__ (no aclose, no asend)
            fn_kind = cfg.get('fn_kind', 'function')
            plain_fn = fn
            if fn_kind == 'partial':
                import functools

                async def fn_extra(extra, batch):
                    async for kv in plain_fn(batch):
                        yield kv
                fn = functools.partial(fn_extra, 'x')
            elif fn_kind == 'instance':
                class BatchFn:
                    async def __call__(self, batch):
                        async for kv in plain_fn(batch):
                            yield kv
                fn = BatchFn()
            elif fn_kind == 'plain_iter':
                class PlainIter:
                    def __init__(self, g):
                        self.g = g

                    def __aiter__(self):
                        return self

                    async def __anext__(self):
                        return await self.g.__anext__()

                def fn(batch):
                    return PlainIter(plain_fn(batch))

            opts = dict(max_batch_size=cfg['size'], max_concurrent_batches=cfg['conc'],
                        batch_timeout=cfg['bt'], retention_timeout=cfg['ret'])
            if cfg.get('only') is not None:        # C15: pass just these options, the rest stay default
                opts = {k: v for k, v in opts.items() if k in cfg['only']}

            def thread_body():
                loop = aio.new_event_loop()
                aio.set_event_loop(loop)
                loop.set_exception_handler(
                    lambda lp, ctx: emit('loop_exc', str(ctx.get('message'))[:100], repr(ctx.get('exception'))[:160],
                                         getattr(ctx.get('task') or ctx.get('future'), 'get_name', lambda: '')()))

                async def main_coro():
                    if form == 'class':
                        bat = A.AsyncBackgroundBatcher(fn, **opts)
                    elif form == 'deco':
                        bat = A.async_background_batcher(fn, **opts)
                    else:
                        bat = A.async_background_batcher(**opts)(fn)

                    def eff_key(c):
                        # 'prefixed': the explicit key differs from str(arg), so ignoring it shows
                        if cfg['explicit_key'] == 'emptyone':
                            return '' if c['key'] == 'a' else c['key']
                        return 'K' + c['key'] if cfg['explicit_key'] == 'prefixed' else c['key']

                    for t_gc in cfg.get('gc_at', ()):
                        def collect():
                            import gc
                            emit('gc')
                            gc.collect()
                        loop.call_later(t_gc, collect)

                    def invoke(c, cid):
                        a = (EqArg if cfg.get('args_equal') else Arg)(c['key'], cid)
                        if cfg['explicit_key'] in ('prefixed', 'emptyone') and not cfg.get('args_equal'):
                            a = UArg(c['key'], cid)
                        if cfg['explicit_key'] == 'ci':
                            # keys with an equality of their own: a str subclass that ignores case, spelled differently per call
                            return bat(a, key=CIKey(c['key'].upper() if cid % 2 else c['key']))
                        if cfg['explicit_key']:
                            return bat(a, key=eff_key(c))
                        return bat(a)

                    async def call(cid, c, first=True):
                        beh[cid] = c['beh']
                        if c['t']:
                            await aio.sleep(c['t'])
                        me = aio.current_task()
                        if c.get('block'):
                            simrt.sim_sleep(c['block'])        # synchronous work on the loop thread
                        emit('call', cid, eff_key(c))
                        try:
                            if c['how'] == 'timeout':
                                async with aio.timeout(c['cancel']):
                                    r = await invoke(c, cid)
                            elif c['how'] == 'waitfor':
                                r = await aio.wait_for(invoke(c, cid), c['cancel'])
                            else:
                                r = await invoke(c, cid)
                            emit('ret', cid, 'val', r)
                        except Exception as e:
                            src = e.__cause__ or e.__context__
                            if e.args[:1] == ('after the last result',):
                                emit('ret', cid, 'batch_end_error', (type(e).__name__, e.args[1]))
                            elif getattr(e, 'hx', False):
                                emit('ret', cid, 'exc', e.hx)
                            elif isinstance(e, RuntimeError) and isinstance(src, (StopIteration, StopAsyncIteration)) \
                                    and getattr(src, 'hx', False):
                                # a StopIteration cannot travel through a future or a coroutine as itself (PEP 479): the
                                # caller is answered with a RuntimeError that carries the yielded instance
                                emit('ret', cid, 'exc', src.hx)
                                emit('note', 'stop_iteration_carried', cid)
                            elif isinstance(e, HarnessError):
                                emit('ret', cid, 'exc', e.args)
                            elif isinstance(e, TimeoutError):
                                emit('ret', cid, 'timeout', None)
                            else:
                                emit('ret', cid, 'other', (type(e).__name__, str(e)[:80]))
                        except aio.CancelledError:
                            emit('ret', cid, 'cancelled', me.cancelling() > 0)
                        except BaseException as e:     # noqa
                            emit('ret', cid, 'other', (type(e).__name__, str(e)[:80]))
                        if first and c.get('again'):
                            # the answered caller asks for the same key again at once (no suspension point in between)
                            await call(500 + cid, dict(c, t=0, block=None, again=False), first=False)

                    box['keys'] = sorted({eff_key(c) for c in prog['calls']})
                    nested_tasks = []

                    def nested(nk, cid):
                        c = {'key': nk, 'beh': 'val', 'how': None, 'cancel': None, 't': 0}
                        if cfg['explicit_key'] == 'prefixed' and nk.startswith('K'):
                            c['key'] = nk[1:]
                        if cfg['explicit_key'] == 'emptyone' and nk == '':
                            c['key'] = 'a'
                        nested_tasks.append(aio.ensure_future(call(cid, c, first=False)))
                    box['nested'] = nested

                    def nested_await(nk, cid):
                        c = {'key': nk, 'beh': 'val', 'how': None, 'cancel': None, 't': 0}
                        if cfg['explicit_key'] == 'prefixed' and nk.startswith('K'):
                            c['key'] = nk[1:]
                        if cfg['explicit_key'] == 'emptyone' and nk == '':
                            c['key'] = 'a'
                        return call(cid, c, first=False)
                    box['nested_await'] = nested_await

                    ts = []
                    forgotten = [0]
                    for cid, c in enumerate(prog['calls']):
                        tk = aio.ensure_future(call(cid, c))
                        if c.get('forget'):
                            # a fire-and-forget caller: nobody keeps its task (asyncio itself only holds tasks weakly)
                            forgotten[0] += 1
                            tk.add_done_callback(lambda _t: forgotten.__setitem__(0, forgotten[0] - 1))
                            continue
                        ts.append(tk)
                        if c['how'] == 'cancel':
                            def do_cancel(tk=tk, cid=cid):
                                if not tk.done():
                                    emit('cancel_req', cid)
                                    tk.cancel()
                            loop.call_later(c['t'] + c['cancel'], do_cancel)
                    for mu in prog['muts']:
                        def mutate(mu=mu):
                            target = bat if form == 'class' else None
                            if target is not None:
                                emit('set_size', mu['size'])
                                target.max_batch_size = mu['size']
                        loop.call_later(mu['t'], mutate)
                    if ts:
                        await aio.wait(ts, timeout=64.0)
                    tk = None
                    t_wait = 0.0
                    while forgotten[0] > 0 and t_wait < 64.0:
                        await aio.sleep(BT)
                        t_wait += BT
                    for _ in range(8):           # (a nested request may itself cause further nested requests)
                        todo = [tk for tk in nested_tasks if not tk.done()]
                        if not todo:
                            break
                        await aio.wait(todo, timeout=64.0)
                        await aio.sleep(0)
                    emit('pending', [i for i, tk in enumerate(ts) if not tk.done()])
                    for j in range(fresh):
                        cid = 1000 + j
                        c = {'key': f'fresh{j}', 'beh': 'val'}
                        emit('call', cid, eff_key(c))
                        try:
                            r = await aio.wait_for(invoke(c, cid), 16.0)
                            emit('ret', cid, 'val', r)
                        except HarnessError as e:
                            emit('ret', cid, 'batch_end_error' if e.args[:1] == ('after the last result',) else 'exc', e.args)
                        except BaseException as e:   # noqa
                            emit('ret', cid, 'other', (type(e).__name__, str(e)[:80]))
                    await aio.sleep(cfg['ret'] + 2 * BT)
                    if cfg.get('impatient'):
                        # the callers may all be gone long before their batches have been processed
                        await aio.sleep((len(prog['calls']) + 2) * (BT + cfg['bdur'] + 6 * cfg['idur'] + cfg.get('tail', 0)))
                    emit('end')

                loop.run_until_complete(main_coro())
                loop.close()

            s.spawn(thread_body, 'L')

        return simrt.execute(main, simrt.Strategy('none'), max_steps=300000, lines=False, watchdog=60.0)


# ---------------------------------------------------------------------------

class BatView:
    def __init__(self, log, prog):
        self.log = log
        self.prog = prog
        self.calls = {}
        self.rets = {}
        self.bstarts = []
        self.bend = {}
        self.yields = collections.defaultdict(list)      # (b, key) -> [(kind, uid, seq)]
        self.braise = {}
        self.braise_end = {}
        self.where = {}                                   # cid -> batch event
        self.sizes = [(-1, prog['cfg']['size'])]
        self.pending = None
        self.cancel_req = set()
        self.handler = []
        for i, e in enumerate(log):
            k = e[0]
            if k == 'call':
                self.calls[e[1]] = (i, e)
            elif k == 'ret':
                self.rets.setdefault(e[1], (i, e))
            elif k == 'bstart':
                self.bstarts.append((i, e))
                for key, cid in e[2]:
                    self.where[cid] = (i, e)
            elif k == 'bend':
                self.bend[e[1]] = (i, e)
            elif k == 'yield':
                self.yields[(e[1], e[2])].append((e[3], e[4], i))
            elif k == 'braise':
                self.braise[e[1]] = (i, e)
            elif k == 'braise_end':
                self.braise_end[e[1]] = (i, e)
            elif k == 'set_size':
                self.sizes.append((i, e[1]))
            elif k == 'pending':
                self.pending = e[1]
            elif k == 'cancel_req':
                self.cancel_req.add(e[1])
            elif k == 'loop_exc':
                self.handler.append(e)

    def expected(self, cid):
        """What the batch function produced for this originating call: (kind, uid|None)."""
        i, b = self.where[cid]
        key = self.calls[cid][1][2]
        ys = self.yields.get((b[1], key))
        if ys:
            return ('val' if ys[0][0] == 'val' else 'exc', ys[0][1])
        if b[1] in self.braise:
            return ('batch-raise', self.braise[b[1]][1][2])
        # never yielded; the batch ended normally or raised after its last result: an error of some kind
        return ('some-exception', None)


def outcome_of(ret):
    """(kind, uid) of a caller's logged outcome."""
    k, d = ret[2], ret[3]
    if k == 'val':
        return ('val', d[3] if isinstance(d, tuple) and len(d) == 4 else None)
    if k == 'exc':
        if d and d[0] == 'batch':
            return ('batch-raise', d[2])
        return ('exc', d[2] if len(d) > 2 else None)
    return (k, d)


def protocol_violated(v: BatView, b):
    keys = {k for k, _ in b[2]}
    seen = collections.Counter()
    for (bb, key), ys in v.yields.items():
        if bb == b[1]:
            if key not in keys:
                return True
            if len(ys) > 1:
                return True
    return False


def judge_c04(v: BatView, res: CaseResult, judged=None, tag='C04'):
    st = res.stats
    for cid, (i, c) in v.calls.items():
        if judged is not None and cid not in judged:
            continue
        key = c[2]
        r = v.rets.get(cid)
        if r is None:
            res.violate(f'{tag}:caller-never-answered', 'a call never completed', cid=cid, key=key)
            continue
        got = outcome_of(r[1])
        if cid in v.where:
            b = v.where[cid][1]
            exp = v.expected(cid)
            proto = protocol_violated(v, b)
            if exp[0] == 'some-exception' or (proto and exp[0] not in ('val', 'exc')):
                if got[0] in ('val',):
                    res.violate(f'{tag}:unanswered-key-got-value', 'a key never yielded was answered with a value',
                                cid=cid, got=got)
                else:
                    st['answered_with_error_for_omitted'] += 1
            elif proto and exp[0] in ('val', 'exc') and got != exp:
                # answered before or after the protocol violation: own outcome or *some* error
                if got[0] == 'val' or (got[0] == 'exc' and got[1] is not None):
                    res.violate(f'{tag}:wrong-outcome', 'caller received an outcome produced for another key/batch',
                                cid=cid, key=key, expected=exp, got=got)
            elif got != exp:
                res.violate(f'{tag}:wrong-outcome',
                            'caller did not receive the outcome the batch function produced for its key',
                            cid=cid, key=key, expected=exp, got=got, batch=b[1])
            else:
                st[f'outcome_{exp[0]}'] += 1
        else:
            # shared a pending / retained request: must equal the outcome of an originator of that key
            origs = [o for o, (_, oc) in v.calls.items() if oc[2] == key and o in v.where and o in v.rets]
            outs = {outcome_of(v.rets[o][1]) for o in origs}
            if got[0] in ('val', 'exc', 'batch-raise') and got in outs:
                st['sharer_same_outcome'] += 1
            elif got[0] not in ('val', 'exc', 'batch-raise') and any(o[0] == got[0] for o in outs):
                st['sharer_same_outcome'] += 1
            else:
                res.violate(f'{tag}:sharer-mismatch', 'a caller sharing a key did not get the originator\'s outcome',
                            cid=cid, key=key, got=got, originators=sorted(map(repr, outs)))
        if got[0] == 'val':
            val = r[1][3]
            if not (isinstance(val, tuple) and val[0] == key):
                res.violate(f'{tag}:other-keys-value', 'caller received a value yielded for a different key',
                            cid=cid, key=key, value=val)
        if got[0] == 'exc':
            if r[1][3][0] != key:
                res.violate(f'{tag}:other-keys-exception', 'caller received an exception yielded for a different key',
                            cid=cid, key=key, exc=r[1][3])


def judge_c09(v: BatView, res: CaseResult, prog):
    st = res.stats
    cancelled = {cid for cid, c in enumerate(prog['calls']) if c['cancel'] is not None}
    # (cids from 3000: requests the batch function itself waited for with a timeout - given up like a cancelled caller's)
    bystanders = {cid for cid in v.calls if cid not in cancelled and not 3000 <= cid < 4000}
    for cid in sorted(bystanders):
        key = v.calls[cid][1][2]
        r = v.rets.get(cid)
        fresh = cid >= 1000
        if r is None:
            res.violate('C09:fresh-call-not-served' if fresh else 'C09:bystander-never-answered',
                        'a caller that was not cancelled never completed', cid=cid, key=key)
            continue
        k, d = r[1][2], r[1][3]
        if k == 'val':
            if not (isinstance(d, tuple) and d[0] == key and any(u == d[3] for ys in
                    [v.yields.get((d[1], key), [])] for _, u, _ in ys)):
                res.violate('C09:bystander-wrong-value', 'value was not yielded for this key', cid=cid, value=d)
            else:
                st['bystander_value_ok'] += 1
        elif k == 'exc':
            if d[0] == 'batch':
                if not any(e[2] == d[2] for _, e in v.braise.values()):
                    res.violate('C09:bystander-wrong-exception', 'exception was not raised by its batch', cid=cid)
            elif d[0] != key:
                res.violate('C09:bystander-wrong-exception', 'exception was yielded for another key', cid=cid, exc=d)
            else:
                st['bystander_exception_ok'] += 1
        elif k == 'cancelled':
            res.violate('C09:bystander-cancelled', 'a caller nobody cancelled received CancelledError',
                        cid=cid, key=key, fresh=fresh)
        else:
            name = d[0] if isinstance(d, tuple) else str(d)
            res.violate(('C09:fresh-call-failed:' if fresh else 'C09:bystander-foreign-exception:') + str(name),
                        'a caller nobody cancelled received an exception the batch function never produced',
                        cid=cid, key=key, exc=d)
    for e in v.handler:
        if 'async-bg-batcher' in str(e[3]) or 'async-bg-batcher' in str(e[1]) or 'InvalidState' in str(e[2]):
            res.violate('C09:background-task-died', 'a batcher background task died with an unhandled exception',
                        message=e[1], exception=e[2], task=e[3])
            break
    # phase x role counters
    for cid in cancelled:
        if cid not in v.calls:
            continue
        c = prog['calls'][cid]
        tcan = c['t'] + c['cancel']
        role = 'originator' if cid in v.where else 'sharer'
        phase = 'never-batched'
        key = v.calls[cid][1][2]          # the effective key as logged
        # find the batch serving this key at cancel time
        for i, b in v.bstarts:
            if any(k == key for k, _ in b[2]):
                t0 = b[-1]
                t1 = v.bend.get(b[1], (0, (0, 0, float('inf'))))[1][-1]
                ys = v.yields.get((b[1], key))
                if tcan < t0:
                    phase = 'queued'
                elif ys and tcan >= v.log[ys[0][2]][-1] and tcan <= t1:
                    phase = 'after-result-before-batch-end'
                elif tcan <= t1:
                    phase = 'running-before-result'
                else:
                    phase = 'after-batch'
                break
        others = any(o != cid and ((o in v.where and cid in v.where and v.where[o][1][1] == v.where[cid][1][1])
                                   or v.calls[o][1][2] == key) for o in bystanders)
        r = v.rets.get(cid)
        if r is not None and r[1][2] in ('cancelled', 'timeout'):
            st[f'cancel_{phase}_{role}'] += 1
            if others:
                st['cancelled_with_company'] += 1


def limit_window(v: BatView, b_idx, first_call_idx):
    """max_batch_size values in force between first joiner's arrival and hand-over."""
    vals = []
    cur = v.sizes[0][1]
    for i, sz in v.sizes:
        if i <= first_call_idx:
            cur = sz
    vals.append(cur)
    for i, sz in v.sizes:
        if first_call_idx < i <= b_idx:
            vals.append(sz)
    return min(vals), max(vals)


def judge_c10(v: BatView, res: CaseResult, prog):
    st = res.stats
    cfg = prog['cfg']
    bt = cfg['bt']
    callt = {cid: e[-1] for cid, (_, e) in v.calls.items()}
    callseq = {cid: i for cid, (i, _) in v.calls.items()}
    enq = []
    lims = {}
    for i, b in v.bstarts:
        cids = [cid for _, cid in b[2]]
        first = min(callseq[c] for c in cids) if cids else i
        lo, hi = limit_window(v, i, first)
        lims[b[1]] = (lo, hi)
        if not 1 <= len(cids) <= hi:
            res.violate('C10:batch-size', 'empty batch or more than max_batch_size items',
                        batch=b[1], size=len(cids), limit=hi)
        if len(cids) >= hi:
            st['size_limit_reached'] += 1
        if b[3] > cfg['conc']:
            res.violate('C10:concurrency', 'more than max_concurrent_batches executions in progress',
                        running=b[3], limit=cfg['conc'])
        if b[3] == cfg['conc']:
            st['concurrency_limit_reached'] += 1
        enq += cids
    arrival = sorted(enq, key=lambda c: callseq[c])
    if enq != arrival:
        res.violate('C10:fifo', 'items were not handed over in arrival order', batches=[b[2] for _, b in v.bstarts])
    where = {cid: b for i, b in v.bstarts for _, cid in b[2]}
    for x, y in zip(arrival, arrival[1:]):
        gap = callt[y] - callt[x]
        if gap < bt - M and where[x] is not where[y]:
            lo, hi = lims[where[x][1]]
            if len(where[x][2]) < lo:
                res.violate('C10:not-shared', 'arrivals closer than batch_timeout were split although the batch was not full',
                            first=x, second=y, gap=gap / U, batch_size=len(where[x][2]), limit=lo)
        if gap < bt - M:
            st['close_arrivals_judged'] += 1
    spans = [(b[-1], v.bend[b[1]][1][-1] if b[1] in v.bend else float('inf'), b[1]) for _, b in v.bstarts]
    for i, b in v.bstarts:
        cids = [cid for _, cid in b[2]]
        if not cids:
            continue
        last = max(callt[c] for c in cids)
        lo, hi = lims[b[1]]
        full = len(cids) >= lo
        due = last if len(cids) >= hi else last + bt
        start = b[-1]
        if start > due + EPS:
            def running_after(t):
                return sum(1 for a, z, bb in spans if bb != b[1] and a <= t and z > t)
            pts = [due] + [z for a, z, bb in spans if due < z < start] + [a for a, z, bb in spans if due < a < start]
            if any(running_after(t) < cfg['conc'] for t in pts):
                if not (full and abs(start - last) <= EPS):
                    res.violate('C10:late-handover', 'batch handed over later than batch_timeout after its last joiner '
                                'although a concurrency slot was free',
                                batch=b[1], last_joiner=last / U, due=due / U, start=start / U)
            else:
                st['waited_for_slot'] += 1
        if not full and abs(start - (last + bt)) <= EPS:
            st['closed_by_timeout'] += 1
    # requests that were never handed over at all: still unanswered when the harness gave up (64 virtual seconds), in no batch,
    # sharing nobody's request in flight, and no execution in progress by then
    if v.pending:
        unfinished = {b[1] for _, b in v.bstarts if b[1] not in v.bend}
        in_flight = {k for _, b in v.bstarts if b[1] in unfinished for k, _ in b[2]}
        stuck = [cid for cid in v.pending if cid in v.calls and cid not in v.where and v.calls[cid][1][2] not in in_flight
                 and not prog['calls'][cid].get('how')]
        if stuck and not unfinished:
            res.violate('C10:late-handover', 'requests were never handed to the batch function although no execution was in progress',
                        never_batched=stuck[:6])


def judge_c11(v: BatView, res: CaseResult, prog):
    st = res.stats
    R = prog['cfg']['ret']
    for i, b in v.bstarts:
        ks = [k for k, _ in b[2]]
        if len(set(ks)) != len(ks):
            res.violate('C11:key-twice-in-batch', 'a batch carried the same key twice', batch=b[2])
    bykey = collections.defaultdict(list)
    for cid, (i, c) in sorted(v.calls.items(), key=lambda kv: kv[1][0]):
        bykey[c[2]].append(cid)
    if prog['cfg'].get('blocked_loop'):
        # the loop was kept busy: judged in log order only - while a request is surely still pending (enqueued, nothing
        # produced for it yet), another call with its key adds no work and gets the same outcome
        st['programs_with_busy_loop'] += 1
        for key, cids in bykey.items():
            origs = [c for c in cids if c in v.where]
            for cid in cids:
                ix = v.calls[cid][0]
                for o in origs:
                    if o == cid or v.calls[o][0] > ix:
                        continue
                    b = v.where[o][1][1]
                    done_at = [y[2] for y in v.yields.get((b, key), [])]
                    for d in (v.bend, v.braise, v.braise_end):
                        if b in d:
                            done_at.append(d[b][0])
                    done_at += [i for i, e in enumerate(v.log) if e[0] == 'omit' and e[1] == b]
                    if done_at and ix < min(done_at):
                        st['call_while_surely_pending'] += 1
                        if cid in v.where:
                            res.violate('C11:duplicate-work-while-pending', 'a call arriving while a request for its key was pending '
                                        'was put to work again', cid=cid, pending=o, key=key)
                        elif v.rets.get(cid) is not None and v.rets.get(o) is not None and \
                                outcome_of(v.rets[cid][1]) != outcome_of(v.rets[o][1]):
                            res.violate('C11:different-outcome-in-window', 'a call made while the request was pending did not receive '
                                        'its outcome', cid=cid, key=key)
        return
    for key, cids in bykey.items():
        origs = []          # (cid, t_enq, t_answered)
        for cid in cids:
            tc = v.calls[cid][1][-1]
            r = v.rets.get(cid)
            inside = [o for o in origs if o[1] - EPS <= tc and (o[2] is None or tc < o[2] + R - M)]
            after_all = all(o[2] is not None and tc > o[2] + R + M for o in origs)
            is_orig = cid in v.where
            if 500 <= cid < 1000 and R == 0 and not prog['cfg'].get('blocked_loop') and (cid - 500) in v.where:
                # retention_timeout = 0: nothing is remembered once the original caller has been answered - and this
                # call is made by that very caller (the one whose call was batched), right after its answer
                st['re_request_right_after_answer_no_retention'] += 1
                first_answer = v.rets.get(cid - 500)
                # (it may legitimately share a *newer* request for the key that is pending by now, never the old outcome)
                if not is_orig and r is not None and first_answer is not None and outcome_of(r[1]) == outcome_of(first_answer[1]) \
                        and outcome_of(r[1])[1] is not None:
                    res.violate('C11:stale-result-after-window', 'retention_timeout=0: a caller that asked again right after it was '
                                'answered was served from memory instead of a new computation', cid=cid, key=key)
            elif inside:
                st['call_inside_window'] += 1
                o = inside[-1]
                if is_orig:
                    res.violate('C11:duplicate-work-in-window',
                                'a call inside the pending/retention window of its key was batched again',
                                cid=cid, key=key, t=tc / U, window=[o[1] / U, None if o[2] is None else (o[2] + R) / U])
                elif r is not None and v.rets.get(o[0]) is not None:
                    if outcome_of(r[1]) != outcome_of(v.rets[o[0]][1]):
                        res.violate('C11:different-outcome-in-window',
                                    'a call inside the window did not receive the original outcome',
                                    cid=cid, key=key, got=outcome_of(r[1]), original=outcome_of(v.rets[o[0]][1]))
            elif after_all and origs:
                st['call_after_window'] += 1
                if not is_orig:
                    res.violate('C11:stale-result-after-window',
                                'a call after the retention window was served from memory instead of a new computation',
                                cid=cid, key=key, t=tc / U,
                                windows=[[o[1] / U, (o[2] + R) / U] for o in origs], retention=R / U)
                elif r is not None and r[1][2] == 'val':
                    newb = v.where[cid][1][1]
                    if r[1][3][1] != newb:
                        res.violate('C11:old-result-after-window', 'a new computation returned an old batch\'s value',
                                    cid=cid, value=r[1][3], batch=newb)
            if is_orig:
                ta = r[1][-1] if r is not None else None
                origs.append((cid, tc, ta))
        if len(origs) >= 1 and any(c not in v.where for c in cids):
            st['keys_with_sharers'] += 1


# ---------------------------------------------------------------------------

class BatcherCheck(Check):
    anchors = ('AsyncBackgroundBatcher', 'async_background_batcher')
    budget = {'quick': 40.0, 'thorough': 640.0}
    assumptions = [
        'Engine A with a single loop thread: virtual time only, no thread interleaving (the batcher is single-loop)',
        'batch-function behaviours are limited to the stated domain (value, Exception instance, omit, raise, '
        'yield twice, unknown key); no BaseException-only outcomes',
        'exact timer ties (within batch_timeout/64) are executed but not judged',
        'Python 3.12',
    ]
    SIZES = {'quick': 60000, 'thorough': 1400000}

    def __init__(self, pid):
        self.pid = pid
        self.flavour = pid.lower()

    def setup(self):
        import aiuti.asyncio as A
        simrt.prepare([A])
        self.h = BatcherHarness(A)

    def cases(self, tier, seed):
        for i in range(self.SIZES[tier]):
            yield {'seed': (seed << 32) + i}

    def run_case(self, case):
        rng = random.Random(case['seed'])
        prog = gen(rng, self.flavour)
        r = self.h.run(prog, fresh=2 if self.pid == 'C09' else 0, seed=case['seed'])
        res = CaseResult()
        if r.verdict == 'watchdog' or not r.clean:
            res.dirty = True
        if r.verdict == 'watchdog':
            res.inconclusive = 'wall-clock watchdog'
            return res
        if r.thread_errors:
            res.inconclusive = 'harness thread error: ' + repr(r.thread_errors[:2])
            res.sample = {'program': prog, 'log': r.log[-30:]}
            return res
        st = res.stats
        st['executions'] += 1
        st[f'form_{prog["cfg"]["form"]}'] += 1
        if prog['cfg'].get('explicit_key') == 'emptyone' and any(c['key'] == 'a' for c in prog['calls']):
            st['programs_with_the_empty_string_as_an_explicit_key'] += 1
        v = BatView(r.log, prog)
        st['batches'] += len(v.bstarts)
        res.sig = str(len(v.bstarts))
        if r.verdict in ('deadlock', 'stepbound', 'timebound') or not any(e[0] == 'end' for e in r.log):
            if self.pid in ('C04', 'C09'):
                res.violate(f'{self.pid}:hang', f'execution did not finish ({r.verdict})', blocked=r.blocked)
            else:
                if self.pid == 'C10' and r.verdict in ('deadlock', 'timebound'):
                    # a final state (or one only kept alive by periodic timers): a request that was enqueued, is in no batch and
                    # shares nobody's pending request, while no execution is in progress, was not handed over in time
                    open_batches = [b for _, b in v.bstarts if b[1] not in v.bend]
                    waiting = [cid for cid, (i, c) in v.calls.items() if cid not in v.where and cid not in v.rets]
                    keys_in_flight = {k for _, b in v.bstarts if b[1] not in v.bend for k, _ in b[2]}
                    stuck = [cid for cid in waiting if v.calls[cid][1][2] not in keys_in_flight]
                    if stuck and not open_batches:
                        res.violate('C10:late-handover', 'requests were never handed to the batch function although no execution '
                                    'was in progress', never_batched=stuck[:6], verdict=r.verdict)
                if not res.violations:
                    res.inconclusive = f'{r.verdict}: completion is C04\'s subject'
        elif self.pid == 'C04':
            judge_c04(v, res)
            multi = [b for _, b in v.bstarts if len(b[2]) >= 2]
            for b in multi:
                behs = {prog['calls'][cid]['beh'] for _, cid in b[2] if cid < len(prog['calls'])}
                if behs - {'val'} or prog['cfg']['order'] != 'fwd':
                    res.nontrivial = True
                for bh in behs:
                    st[f'behaviour_in_multi_batch_{bh}'] += 1
        elif self.pid == 'C09':
            judge_c09(v, res, prog)
            res.nontrivial = bool(st.get('cancelled_with_company'))
        elif self.pid == 'C10':
            judge_c10(v, res, prog)
            res.nontrivial = bool(st.get('size_limit_reached') or st.get('waited_for_slot')
                                  or st.get('closed_by_timeout'))
        else:
            judge_c11(v, res, prog)
            res.nontrivial = bool(st.get('call_inside_window')) and bool(st.get('call_after_window'))
        if res.nontrivial:
            st['nontrivial'] += 1
        if res.violations or res.nontrivial:
            res.sample = {'program': prog, 'verdict': r.verdict, 'log': r.log[:80]}
        return res

    def floors(self, tier):
        k = 1 if tier == 'quick' else 20
        if self.pid == 'C04':
            f = {'nontrivial': 5000 * k, 'programs_with_the_empty_string_as_an_explicit_key': 300 * k}
            for b in ('val', 'exc', 'omit', 'raise', 'twice', 'unknown'):
                f[f'behaviour_in_multi_batch_{b}'] = 500 * k
            return f
        if self.pid == 'C09':
            f = {'nontrivial': 3000 * k}
            for ph in ('queued', 'running-before-result', 'after-result-before-batch-end'):
                f[f'cancel_{ph}_originator'] = 100 * k
            f['cancel_queued_sharer'] = 50 * k
            f['cancel_running-before-result_sharer'] = 50 * k
            return f
        if self.pid == 'C10':
            return {'size_limit_reached': 3000 * k, 'waited_for_slot': 1000 * k, 'closed_by_timeout': 3000 * k,
                    'close_arrivals_judged': 5000 * k}
        return {'nontrivial': 2000 * k, 'call_inside_window': 5000 * k, 'call_after_window': 5000 * k,
                'programs_with_the_empty_string_as_an_explicit_key': 300 * k}

    @property
    def rule(self):
        base = ('cases = seeded timed programs of calls on the grid around batch_timeout (and around the retention '
                'window for C11), max_batch_size 1-5, max_concurrent_batches 1-3, retention_timeout {0, bt/2, 8bt}, batch and '
                'item durations on the grid, result order forward/reverse/shuffled, class / decorator / decorator-with-options '
                'forms, explicit (one of them may be the empty string) and default str(arg) keys; (C04, C11) the class of yielded / raised failures from {HarnessError, KeyError '
                'and a subclass, StopIteration, StopAsyncIteration, TimeoutError, OSError, ValueError, RuntimeError} and arguments that '
                'compare equal but print differently; (C10) impatient callers that give up before the hand-over; (C11) callers that ask '
                'again right after being answered; batch functions that are a partial / a callable instance / return a bare '
                '__aiter__-__anext__ object, and that schedule requests to their own batcher; (C11) collector runs inside the retention '
                'window, case-insensitive str-subclass keys; (C09) fire-and-forget callers with collector runs, a batch function that waits '
                'with a timeout for another key of its own batcher; distinct = distinct programs; ')
        return base + {
            'C04': 'non-trivial = a batch of >= 2 keys with a non-"value" behaviour or a non-forward order',
            'C09': 'non-trivial = a cancelled / timed-out caller whose batch or key was shared with a caller that was not cancelled',
            'C10': 'non-trivial = the size limit was reached, a batch waited for a slot, or a batch was closed by the timeout',
            'C11': '15 % of the programs keep the loop busy with synchronous work across deadlines (judged in log order only: no key '
                   'twice in a batch, no new work and the same outcome while a request is surely pending); '
                   'non-trivial = one call inside a pending/retention window and one after it',
        }[self.pid]


def get_check(pid):
    return BatcherCheck(pid)
