"""C13 - a crashed holder never leaves the FileLock stuck (Engine C).

For every scenario and every n in 1..K (K = LINE events fired inside
aiuti/filelock.py in a dry run) a child process SIGKILLs itself at event n.
The parent checks it really died of signal 9 at the announced line, then a
fresh FileLock in the parent *and* one in a new process must succeed with a
single non-blocking acquire; with 1-2 live contender processes there must be
no marker collision and every contender must make progress after the kill.
"""
from __future__ import annotations

import fcntl
import json
import os
import random
import shutil
import signal
import subprocess
import tempfile
import time

from vf.core import Check, CaseResult, PY, VERIF, REPO

SCENARIOS = ['plain', 'with', 'ctx', 'nonblocking', 'nested', 'nested_force', 'timed_vs_holder',
             'default_timeout', 'with_subprocess', 'del', 'forked_worker', 'with_subprocess_nostdin', 'plain_nostdin']

PROBE = ("import sys, logging; logging.disable(50); import aiuti.filelock as F; l = F.FileLock(sys.argv[1]); "
         "g = l.acquire(blocking=False); print('PROBE', g); g and l.release()")


def _env():
    env = dict(os.environ)
    env['PYTHONPATH'] = os.pathsep.join([REPO, VERIF])
    env['PYTHONDONTWRITEBYTECODE'] = '1'
    return env


def run_child(path, n, scen, hold_fd=None, timeout=60):
    p = subprocess.run([PY, '-m', 'vf.props.crash_child', path, str(n), scen], env=_env(), cwd=VERIF,
                       capture_output=True, timeout=timeout)
    return p.returncode, p.stdout.decode().strip().splitlines(), p.stderr.decode()[-300:]


def start_child_until_dead(path, n, scen, timeout=60, hold=0.0):
    """Start the child and wait until it is dead *without reaping it*: while the probes run its pid still
    exists (a zombie), as it does for any parent that has not called wait() yet."""
    p = subprocess.Popen([PY, '-m', 'vf.props.crash_child', path, str(n), scen], env=dict(_env(), VERIF_CHILD_HOLD=str(hold)),
                         cwd=VERIF, stdout=subprocess.PIPE, stderr=subprocess.PIPE)
    t0 = time.time()
    while True:
        try:
            r = os.waitid(os.P_PID, p.pid, os.WEXITED | os.WNOWAIT | os.WNOHANG)
        except ChildProcessError:
            r = True
        if r is not None:
            break
        if time.time() - t0 > timeout:
            p.kill()
            break
        time.sleep(0.002)
    return p


class C13(Check):
    pid = 'C13'
    level = 'fault_enumeration'
    K = None
    budget = {'quick': 80.0, 'thorough': 480.0}
    assumptions = [
        'Linux flock on the sandbox\'s local filesystem; the Windows branch (msvcrt) is not executable here',
        'crash = SIGKILL of the whole process at a source-line event of aiuti/filelock.py (no partial kernel state '
        'beyond what the kernel itself guarantees)',
        '"promptly" is judged logically: the first non-blocking attempt after the kill must succeed; a waiter that was already '
        'polling must have the lock before it began its 9th pause after the kill, having asked to pause for at most 9 poll intervals in total (requested, not measured, durations)',
    ]
    rule = ('cases = (scenario, crash point n) for scenarios {blocking acquire/release, with, acquire_ctx, non-blocking, '
            'reentrant nested x2, nested + forced release, timed acquire against a live holder, finite default timeout, '
            'holder that spawned a subprocess, garbage-collected holder, the first and the subprocess scenario again with standard input '
            'closed (lock file on descriptor 0)} and EVERY n in 1..K(scenario), with 0 contenders; '
            'the worker forked by a live parent that had used the same lock object; '
            'plus chunks of crash points with 1-2 live contender processes (a single one has two threads sharing its lock objects), and with one live process that is polling with a 25 s '
            'timeout (judged by the pauses it began after the kill before it had the lock: at most 8); non-trivial = the child was killed while it '
            'held the kernel lock or had the lock file open (between open and flock / between unlock and close); '
            'distinct = distinct (scenario, n, contenders)')

    def setup(self):
        import aiuti.filelock as F
        self.F = F
        self.dir = tempfile.mkdtemp(prefix='c13-')
        self.K = None

    H = {}

    def _dry(self):
        d = tempfile.mkdtemp(prefix='c13dry-')
        K = {}
        self.H = {}
        try:
            for s in SCENARIOS:
                path = os.path.join(d, f'{s}.lock')
                hold = None
                if s == 'timed_vs_holder':
                    hold = os.open(path, os.O_RDWR | os.O_CREAT)
                    fcntl.flock(hold, fcntl.LOCK_EX)
                try:
                    rc, out, err = run_child(path, 10 ** 9, s)
                finally:
                    if hold is not None:
                        os.close(hold)
                tot = [l for l in out if l.startswith('TOTAL')]
                K[s] = int(tot[0].split()[1]) if tot and rc == 0 else 0
                hold_ = [l for l in out if l.startswith('HOLDING')]
                self.H[s] = [int(x) for x in hold_[0].split()[1].split(',')] if hold_ else []
        finally:
            shutil.rmtree(d, ignore_errors=True)
        return K

    def cases(self, tier, seed):
        K = self._dry()
        self.K = K
        for s in SCENARIOS:
            for n in range(1, K[s] + 1):
                yield {'scen': s, 'n': n, 'cont': 0}
        stride = 3 if tier == 'quick' else 1
        reps = 1 if tier == 'quick' else 2
        chunk = 6
        rng = random.Random(seed)
        for rep in range(reps):
            for s in ('plain', 'with', 'nested', 'ctx', 'default_timeout'):
                ns = list(range(1 + (seed + rep) % stride, K[s] + 1, stride))
                for i in range(0, len(ns), chunk):
                    yield {'scen': s, 'ns': ns[i:i + chunk], 'cont': 1 + (i // chunk + rep) % 2, 'rep': rep}
        # kills aimed at the events at which the child holds the lock (known from the dry run), with the two specialised
        # contenders: one blocked inside flock(), one polling as fast as it can - the window in which survivors can be
        # handed the lock on an inode that somebody else is about to replace
        def waiter_cases():
            # one live waiter that is already polling with a long timeout when the holder dies
            for rep in range(reps):
                for s in ('plain', 'nested'):
                    ns = list(range(1 + (seed + rep) % stride, K[s] + 1, stride))
                    for i in range(0, len(ns), chunk):
                        yield {'scen': s, 'ns': ns[i:i + chunk], 'cont': 'waiter', 'rep': rep}
        for rep in range(8 if tier == "quick" else 30):
            for s in ('plain', 'with', 'nested'):
                hs = list(self.H.get(s, []))
                rng.shuffle(hs)
                for i in range(0, len(hs), chunk):
                    yield {'scen': s, 'ns': hs[i:i + chunk], 'cont': 2, 'rep': 100 + rep}
            if rep == 1:
                # (after the second round of aimed kills rather than at the very end, so that a run truncated by its time
                # budget on a busy machine still covers the waiter family)
                yield from waiter_cases()

    # -- helpers ----------------------------------------------------------------
    def probe_both(self, path, res, what):
        l = self.F.FileLock(path)
        try:
            g = l.acquire(blocking=False)
        except Exception as e:      # noqa - an acquire that fails with an error after a crash did not acquire
            g = repr(e)
        if g is not True:
            res.violate('C13:stuck-after-crash', 'a fresh FileLock in another process could not acquire after the holder was killed',
                        got=repr(g), **what)
            return False
        l.release()
        p = subprocess.run([PY, '-c', PROBE, path], env=_env(), capture_output=True, timeout=60)
        out = p.stdout.decode()
        if 'PROBE True' not in out:
            res.violate('C13:stuck-after-crash', 'a new process could not acquire after the holder was killed',
                        probe=out.strip()[-100:], err=p.stderr.decode()[-200:], **what)
            return False
        res.stats['fresh_process_probes_ok'] += 1
        return True

    def kill_one(self, path, scen, n, res, hold_for_timed=True, hold_s=0.0):
        st = res.stats
        hold = None
        if scen == 'timed_vs_holder':
            hold = os.open(path, os.O_RDWR | os.O_CREAT)
            fcntl.flock(hold, fcntl.LOCK_EX)
        try:
            proc = start_child_until_dead(path, n, scen, hold=hold_s)
        finally:
            if hold is not None:
                os.close(hold)
        self._zombie = proc            # reaped by reap() after the probes
        # the pipe has everything the child wrote before it died
        os.set_blocking(proc.stdout.fileno(), False)
        try:
            out = (proc.stdout.read() or b'').decode().strip().splitlines()
        except Exception:
            out = []
        kl = [l for l in out if l.startswith('KILL')]
        if not kl:
            self.reap()
            st['crash_point_not_reached'] += 1
            return None
        _, nn, qual, line, locked, extra = kl[0].split()
        st['crash_points_reached'] += 1
        info = {'n': int(nn), 'at': f'{qual}:{line}', 'held_kernel_lock': bool(int(locked)),
                'extra_fds_open': int(extra)}
        if int(locked):
            st['killed_while_holding'] += 1
        elif int(extra) > 0:
            st['killed_with_lockfile_open_not_locked'] += 1
        return info

    _zombie = None

    def reap(self):
        p = self._zombie
        self._zombie = None
        if p is not None:
            try:
                rc = p.wait(timeout=30)
            except Exception:
                p.kill()
                rc = p.wait()
            for f in (p.stdout, p.stderr):
                try:
                    f.close()
                except Exception:
                    pass
            return rc
        return None

    def run_case(self, case):
        res = CaseResult()
        st = res.stats
        scen = case['scen']
        st[f'scenario_{scen}'] += 1
        d = tempfile.mkdtemp(prefix='c13c-', dir=self.dir)
        path = os.path.join(d, 'x.lock')
        try:
            if case['cont'] == 'waiter':
                self.with_waiter(case, d, path, res)
            elif scen == 'forked_worker':
                self.forked_worker(case, path, res)
            elif case['cont'] == 0:
                info = self.kill_one(path, scen, case['n'], res)
                if info is None:
                    res.sample = {'scenario': scen, 'n': case['n'], 'note': 'crash point not reached'}
                    return res
                self.probe_both(path, res, {'scenario': scen, 'killed': info, 'holder_reaped': False})
                st['probed_before_the_dead_holder_was_reaped'] += 1
                rc = self.reap()
                if rc != -signal.SIGKILL:
                    res.inconclusive = f'child did not die of SIGKILL (rc={rc})'
                res.nontrivial = info['held_kernel_lock'] or info['extra_fds_open'] > 0
                res.tags = {f'killed_at:{info["at"]}'}
                res.sample = {'scenario': scen, 'killed': info, 'probe': 'acquired at first non-blocking attempt'
                              if not res.violations else 'FAILED'}
            else:
                self.with_contenders(case, d, path, res)
        finally:
            shutil.rmtree(d, ignore_errors=True)
        if res.nontrivial:
            st['nontrivial'] += 1
        return res

    def forked_worker(self, case, path, res):
        """The process that dies is a forked worker of a live parent which had used the same lock object before."""
        st = res.stats
        p = subprocess.Popen([PY, '-W', 'ignore', '-m', 'vf.props.crash_child', path, str(case['n']), 'forked_worker'], env=_env(), cwd=VERIF,
                             stdout=subprocess.PIPE, stderr=subprocess.PIPE)
        out = []
        try:
            os.set_blocking(p.stdout.fileno(), False)
            t0 = time.time()
            buf = b''
            while time.time() - t0 < 60:
                try:
                    chunk = p.stdout.read()
                except Exception:
                    chunk = None
                if chunk:
                    buf += chunk
                if b'WORKER_DEAD' in buf or b'TOTAL' in buf or p.poll() is not None:
                    break
                time.sleep(0.002)
            out = buf.decode().splitlines()
            kl = [l for l in out if l.startswith('KILL')]
            if not kl or not any(l.startswith('WORKER_DEAD 9') for l in out):
                st['crash_point_not_reached'] += 1
                res.sample = {'scenario': 'forked_worker', 'n': case['n'], 'note': 'crash point not reached', 'out': out[-3:]}
                return
            _, nn, qual, line, locked, extra = kl[0].split()
            st['crash_points_reached'] += 1
            st['worker_of_live_parent_killed'] += 1
            info = {'n': int(nn), 'at': f'{qual}:{line}', 'held_kernel_lock': bool(int(locked)), 'extra_fds_open': int(extra),
                    'parent_alive': p.poll() is None}
            if int(locked):
                st['killed_while_holding'] += 1
            elif int(extra) > 0:
                st['killed_with_lockfile_open_not_locked'] += 1
            if p.poll() is not None:
                res.inconclusive = 'the pre-fork parent did not stay alive'
                return
            self.probe_both(path, res, {'scenario': 'forked_worker', 'killed': info, 'pre_fork_parent_alive': True})
            res.nontrivial = info['held_kernel_lock'] or info['extra_fds_open'] > 0
            res.tags = {f'killed_at:worker:{info["at"]}'}
            res.sample = {'scenario': 'forked_worker', 'killed': info,
                          'probe': 'acquired at first non-blocking attempt' if not res.violations else 'FAILED'}
        finally:
            if p.poll() is None:
                p.send_signal(signal.SIGTERM)
            try:
                p.communicate(timeout=20)
            except Exception:
                p.kill()
                p.communicate()

    WAITER_TIMEOUT = 25.0
    WAITER_POLL = 0.05

    def with_waiter(self, case, d, path, res):
        """A live process is in the middle of acquire(timeout=25 s) when the holder is killed. 'Promptly' is judged in
        the waiter's own steps: how many pauses between attempts it began after the death before it had the lock."""
        st = res.stats
        scen = case['scen']
        logf = os.path.join(d, 'waiter.log')
        w = subprocess.Popen([PY, '-m', 'vf.props.waiter_child', path, logf, str(self.WAITER_TIMEOUT), str(self.WAITER_POLL)],
                             env=_env(), cwd=VERIF, stdout=subprocess.PIPE, stderr=subprocess.PIPE)

        def events():
            try:
                with open(logf) as f:
                    lines = f.read().splitlines()
            except OSError:
                return []
            ev = []
            for l in lines:
                a = l.split()
                if len(a) >= 2:
                    ev.append((a[0], float(a[1]), a[2] if len(a) > 2 else ''))
            return ev
        try:
            t0 = time.time()
            while not any(e[0] == 'A' for e in events()) and time.time() - t0 < 30 and w.poll() is None:
                time.sleep(0.02)
            if not any(e[0] == 'A' for e in events()):
                res.inconclusive = 'waiter did not start'
                return
            if any(e[0] == 'NOPROXY' for e in events()):
                res.inconclusive = 'aiuti.filelock no longer pauses through its `time` module: the waiter\'s steps cannot be counted'
                return
            killed = []
            for ki, n in enumerate(case['ns']):
                # every other holder of each case has had the lock for well over a second when it dies (if it dies holding):
                # the waiter is then dozens of attempts into its acquire(), not two or three
                info = self.kill_one(path, scen, n, res, hold_s=1.3 if ki % 2 == 0 else 0.0)
                td = time.monotonic()
                if ki % 2 == 0 and info is not None and info['held_kernel_lock']:
                    st['waiter_had_been_polling_for_over_a_second_when_the_holder_died'] += 1
                if info is None:
                    continue
                killed.append(info)
                res.tags = (res.tags or set()) | {f'killed_at:{info["at"]}'}
                if not info['held_kernel_lock']:
                    self.reap()
                    continue
                res.nontrivial = True
                # the waiter's view: pauses begun after the death and before its next successful acquisition
                deadline = time.time() + 12
                verdict = None
                while time.time() < deadline:
                    ev = [e for e in events() if e[1] > td]
                    acq = [e for e in ev if e[0] == 'A' and e[2] == 'True']
                    upto = acq[0][1] if acq else float('inf')
                    pauses = sum(1 for e in ev if e[0] == 'S' and e[1] < upto)
                    if pauses > 8:
                        verdict = ('late', pauses, bool(acq))
                        break
                    # ... and how long it *asked* to pause (requested durations, not measured ones - load cannot stretch
                    # them): the pause in progress when the holder died plus those begun afterwards, up to the acquisition,
                    # may not ask for more than 9 poll intervals in total
                    allev = events()
                    before = [e for e in allev if e[0] == 'S' and e[1] <= td]
                    asked = sum(float(e[2] or 0) for e in ev if e[0] == 'S' and e[1] < upto)
                    if before and before[-1][1] + float(before[-1][2] or 0) > td \
                            and not any(e[0] in ('A', 'T') and before[-1][1] < e[1] <= td for e in allev):
                        asked += float(before[-1][2] or 0)
                    if asked > 9 * self.WAITER_POLL + 1e-9:
                        verdict = ('overslept', round(asked / self.WAITER_POLL, 1), bool(acq))
                        break
                    if acq:
                        verdict = ('prompt', pauses, True)
                        break
                    time.sleep(0.01)
                self.reap()
                if verdict is None:
                    res.inconclusive = 'waiter neither acquired nor paused within the wall-clock watchdog (starved?)'
                elif verdict[0] == 'prompt':
                    st['polling_waiter_acquired_promptly_after_kill'] += 1
                    st[f'waiter_pauses_begun_after_death_{verdict[1]}'] += 1
                elif verdict[0] == 'overslept':
                    res.violate('C13:waiter-oversleeps', 'a process already waiting with a timeout asked to pause for more than 9 poll '
                                'intervals in total around / after the death of the holder before taking the (free) lock',
                                scenario=scen, killed=info, asked_in_poll_intervals=verdict[1], poll_interval=self.WAITER_POLL)
                    break
                else:
                    res.violate('C13:waiter-not-prompt', 'a process already waiting with a timeout began more than 8 further pauses after '
                                'the holder was killed without taking the (free) lock', scenario=scen, killed=info,
                                pauses_after_death=verdict[1], poll_interval=self.WAITER_POLL, timeout=self.WAITER_TIMEOUT)
                    break
            res.sample = {'scenario': scen, 'contenders': 'one polling waiter (timeout 25 s)', 'killed': killed[:4]}
        finally:
            if w.poll() is None:
                w.send_signal(signal.SIGTERM)
            try:
                o, e = w.communicate(timeout=40)
                rep = json.loads(o.decode().strip().splitlines()[-1])
                if rep['errors']:
                    res.inconclusive = (res.inconclusive or '') + ' waiter errors: ' + repr(rep['errors'][:2])
            except Exception:
                w.kill()
                w.communicate()

    def with_contenders(self, case, d, path, res):
        st = res.stats
        scen = case['scen']
        conts = []
        for i in range(case['cont']):
            # with two contenders: one only ever blocks in the kernel (so it is inside flock() when the holder dies, with
            # line-level sleeps injected around its bookkeeping), the other polls without blocking as fast as it can
            if case['cont'] == 2:
                extra = ['acq,with', '0.3'] if i == 0 else ['nb,nb,timed', '0.0']
            else:
                extra = ['with,acq,nb,timed,ctx,timed0', '0.08']
            # a single contender has two threads that share its two lock objects (a timed attempt of one thread expires
            # while the other thread holds the same object)
            nthr = '2' if case['cont'] == 1 else '1'
            conts.append(subprocess.Popen([PY, '-m', 'vf.props.flock_child', path, d, nthr, '0', str(1000 + i * 4), '1', 'forever'] + extra,
                                          env=_env(), cwd=VERIF, stdout=subprocess.PIPE, stderr=subprocess.PIPE))

        def progress():
            out = {}
            for c in conts:
                try:
                    out[c.pid] = int(open(os.path.join(d, f'progress.{c.pid}')).read() or 0)
                except (OSError, ValueError):
                    out[c.pid] = 0
            return out
        try:
            t0 = time.time()
            started = progress()
            while min(started.values()) < 1 and time.time() - t0 < 30:
                time.sleep(0.02)
                started = progress()
            if min(started.values()) < 1:
                res.inconclusive = f'contenders did not start: progress={progress()} alive={[c.poll() for c in conts]} files={sorted(os.listdir(d))}'
                return
            killed = []
            for n in case['ns']:
                before = progress()
                info = self.kill_one(path, scen, n, res)
                if info is None:
                    continue
                killed.append(info)
                if info['held_kernel_lock'] or info['extra_fds_open'] > 0:
                    res.nontrivial = True
                res.tags = (res.tags or set()) | {f'killed_at:{info["at"]}'}
                t1 = time.time()
                ok = False
                while time.time() - t1 < 10:
                    now = progress()
                    if all(now[p] > before[p] for p in now):
                        ok = True
                        break
                    time.sleep(0.01)
                self.reap()
                if ok:
                    st['survivors_progressed_after_kill'] += 1
                else:
                    now = progress()
                    if any(now[p] > before[p] for p in now):
                        res.inconclusive = 'some contender progressed, another starved within the wall-clock watchdog'
                    else:
                        # nobody progressed: decide logically with non-blocking attempts
                        l = self.F.FileLock(path)
                        got = any(l.acquire(blocking=False) for _ in range(50))
                        if got:
                            l.release()
                            res.inconclusive = 'contenders made no progress but the lock was acquirable'
                        else:
                            res.violate('C13:survivors-stuck', 'after the kill no survivor progressed and the lock cannot be acquired',
                                        scenario=scen, killed=info)
            res.sample = {'scenario': scen, 'contenders': case['cont'], 'killed': killed[:4]}
        finally:
            outs = []
            for c in conts:
                c.send_signal(signal.SIGTERM)
            for c in conts:
                try:
                    o, e = c.communicate(timeout=20)
                    outs.append(json.loads(o.decode().strip().splitlines()[-1]))
                except Exception:
                    c.kill()
                    o, e = c.communicate()
                    # without its report the overlap detector said nothing: never count that as 'held'
                    res.inconclusive = (res.inconclusive or 'a contender did not report') + ' | contender stderr: ' + e.decode()[-300:]
                else:
                    if res.inconclusive and outs[-1]['errors']:
                        res.inconclusive += ' | contender errors: ' + repr(outs[-1]['errors'][:2])
            for o in outs:
                st['contender_entries'] += o['entries']
                if o['overlaps']:
                    res.violate('C13:survivors-overlap', 'marker collision among survivors', overlaps=o['overlaps'][:3])

    def floors(self, tier):
        k = 1 if tier == 'quick' else 2
        return {'crash_points_reached': 500, 'killed_while_holding': 150, 'killed_with_lockfile_open_not_locked': 20,
                'fresh_process_probes_ok': 500, 'survivors_progressed_after_kill': 80 * k,
                'polling_waiter_acquired_promptly_after_kill': 15 * k, 'waiter_had_been_polling_for_over_a_second_when_the_holder_died': 3 * k, 'worker_of_live_parent_killed': 30}

    def extra_evidence(self, tier, agg):
        if self.K is None:
            self.K = self._dry()
        return {'line_events_per_scenario': self.K,
                'exhaustive': agg['stats'].get('crash_point_not_reached', 0) == 0,
                'exhaustive_note': 'every n in 1..K(scenario) was used as a crash point with 0 contenders'}


def get_check(pid):
    return C13()
