#!/bin/bash
# usage: tools/runall.sh [tier] [ids...]   -- runs the checks one after another and prints a one-line summary each
tier="${1:-quick}"; shift
ids="$@"; [ -z "$ids" ] && ids="C01 C02 C03 C04 C05 C06 C07 C08 C09 C10 C11 C12 C13 C14 C15 C16 C17 C18 C19 C20"
cd "$(dirname "$0")/.."
for id in $ids; do
  s=$(date +%s.%N)
  out=$(./check $id --tier $tier 2>&1); rc=$?
  e=$(date +%s.%N)
  printf "%s rc=%s %.1fs  %s\n" $id $rc $(echo "$e - $s" | bc) "$(echo "$out" | grep -E 'VIOLATION|INCONCLUSIVE|KNOWN-FINDING|Traceback' | head -3 | tr '\n' ' ')"
done
