#!/usr/bin/env python3
"""Confirm a seeded change produced by a sub-agent and run the checks against it.

usage: tools/seeded.py <dir with patch.diff demo.py meta.json> [--checks C01,C06] [--keep]
  1. fresh scratch worktree of /repo (outside /repo and /verif); demo must pass there
  2. git apply patch.diff; byte-compile; repository suite must still give 42 passed
  3. demo must fail
  4. quick check(s) of the property with VERIF_REPO=<worktree> (early stop)
  5. copy patch.diff, demo.py, meta.json (+ what was confirmed here) to /verif/seeded/<prop>-<name>/
  6. remove the worktree
"""
import argparse, json, os, shutil, subprocess, sys, tempfile, time

HERE = os.path.dirname(os.path.dirname(os.path.abspath(__file__)))
PY = '/venv/bin/python'


def sh(cmd, cwd=None, env=None, timeout=1500):
    p = subprocess.run(cmd, cwd=cwd, env=env, capture_output=True, text=True, timeout=timeout)
    return p.returncode, (p.stdout + p.stderr)


def main():
    ap = argparse.ArgumentParser()
    ap.add_argument('src')
    ap.add_argument('--checks')
    ap.add_argument('--seed', default='0')
    a = ap.parse_args()
    src = os.path.abspath(a.src)
    meta = json.load(open(os.path.join(src, 'meta.json')))
    prop = meta.get('property')
    name = meta.get('name') or os.path.basename(src)
    name = ''.join(c if c.isalnum() or c in '-_' else '-' for c in str(name))[:50]
    wt = tempfile.mkdtemp(prefix='seedchk-')
    os.rmdir(wt)
    rec = {'confirmed_by': 'tools/seeded.py', 'at': time.strftime('%Y-%m-%d %H:%M:%S')}
    rc, out = sh(['git', '-C', '/repo', 'worktree', 'add', '-q', '--detach', wt, 'HEAD'])
    assert rc == 0, out
    try:
        env = dict(os.environ, PYTHONPATH=wt, PYTHONDONTWRITEBYTECODE='1')
        demo = os.path.join(src, 'demo.py')
        rc, out = sh([PY, demo], cwd=wt, env=env, timeout=300)
        rec['demo_on_untouched_tree'] = {'rc': rc, 'tail': out[-300:]}
        rc, out = sh(['git', '-C', wt, 'apply', os.path.join(src, 'patch.diff')])
        rec['patch_applies'] = rc == 0
        if rc != 0:
            rec['status'] = 'REJECTED: patch does not apply: ' + out[-200:]
        else:
            rc, out = sh([PY, '-m', 'compileall', '-q', 'aiuti'], cwd=wt, env=dict(env, PYTHONDONTWRITEBYTECODE=''))
            sh(['find', wt, '-name', '__pycache__', '-prune', '-exec', 'rm', '-rf', '{}', '+'])
            rec['compiles'] = rc == 0
            rc, out = sh([PY, '-m', 'pytest', '-q', '-p', 'no:cacheprovider', '--timeout=120'], cwd=wt, env=env)
            tail = out.strip().splitlines()[-1] if out.strip() else ''
            rec['suite_with_change'] = tail
            suite_ok = '42 passed' in tail and '2 failed' in tail
            rc, out = sh([PY, demo], cwd=wt, env=env, timeout=300)
            rec['demo_on_changed_tree'] = {'rc': rc, 'tail': out[-400:]}
            ok = rec['demo_on_untouched_tree']['rc'] == 0 and rc != 0 and suite_ok and rec['compiles']
            rec['status'] = 'confirmed' if ok else 'REJECTED: ' + ('suite' if not suite_ok else 'demo does not discriminate')
            if ok:
                checks = a.checks.split(',') if a.checks else [prop]
                rec['checks'] = {}
                for pid in checks:
                    cenv = dict(os.environ, VERIF_REPO=wt, VERIF_SEED=a.seed, VERIF_STOP_ON_VIOLATION='1',
                                VERIF_EVIDENCE_DIR=os.path.join(wt, '_evidence'), VERIF_REPLAY_DIR=os.path.join(wt, '_replays'))
                    t0 = time.time()
                    rc, out = sh([os.path.join(HERE, 'check'), pid, '--tier', 'quick'], env=cenv)
                    rec['checks'][pid] = {'rc': rc, 'seconds': round(time.time() - t0, 1),
                                          'signatures': [l.strip() for l in out.splitlines() if l.startswith('  C')][:6],
                                          'inconclusive': [l for l in out.splitlines() if l.startswith('INCONCLUSIVE')][:1]}
                rec['caught_by'] = [p for p, r in rec['checks'].items() if r['rc'] == 1]
    finally:
        sh(['git', '-C', '/repo', 'worktree', 'remove', '--force', wt])
        shutil.rmtree(wt, ignore_errors=True)
    dst = os.path.join(HERE, 'seeded', f'{prop}-{name}')
    if rec.get('status') == 'confirmed':
        os.makedirs(dst, exist_ok=True)
        for f in ('patch.diff', 'demo.py'):
            if os.path.abspath(src) == os.path.abspath(dst):
                break
            shutil.copy(os.path.join(src, f), os.path.join(dst, f))
        meta_out = {'property': prop, 'name': name, 'summary': meta.get('summary'), 'needs': meta.get('needs'),
                    'author': 'independent sub-agent given only the property text and a scratch worktree',
                    'agent_report': meta.get('ran'), 'confirmation': rec}
        if os.path.abspath(src) == os.path.abspath(dst):      # re-check of a stored change: keep its meta, update the confirmation
            meta_out = dict(meta, confirmation=rec)
        json.dump(meta_out, open(os.path.join(dst, 'meta.json'), 'w'), indent=1)
    print(json.dumps({'dir': dst, 'status': rec.get('status'), 'suite': rec.get('suite_with_change'),
                      'caught_by': rec.get('caught_by'),
                      'checks': {p: (r['rc'], r['signatures'][:2], r['inconclusive']) for p, r in rec.get('checks', {}).items()}}, indent=1))


main()
