#!/usr/bin/env python3
"""Re-run the checks against every stored seeded change (after the checks themselves changed).

For each /verif/seeded/<name>/: copy /repo to a scratch directory outside /repo and /verif, apply patch.diff, run
the quick check of every property recorded in meta.json's `caught_by` (or the seeded property) with early stop,
record whether it is still caught, delete the copy.   usage: tools/recheck_seeded.py [--only substring] [--seed N]
Writes seeded/RECHECK.json.
"""
import argparse, glob, json, os, shutil, subprocess, sys, tempfile, time

HERE = os.path.dirname(os.path.dirname(os.path.abspath(__file__)))


def main():
    ap = argparse.ArgumentParser()
    ap.add_argument('--only')
    ap.add_argument('--seed', default='0')
    a = ap.parse_args()
    out_path = os.path.join(HERE, 'seeded', 'RECHECK.json')
    try:
        results = json.load(open(out_path))
    except Exception:
        results = {}
    for d in sorted(glob.glob(os.path.join(HERE, 'seeded', '*', ''))):
        name = os.path.basename(os.path.dirname(d))
        if a.only and a.only not in name:
            continue
        meta = json.load(open(os.path.join(d, 'meta.json')))
        props = meta['confirmation'].get('caught_by') or [meta['property']]
        root = tempfile.mkdtemp(prefix='seedre-')
        rec = {}
        t0 = time.time()
        try:
            shutil.copytree('/repo', root, dirs_exist_ok=True, ignore=shutil.ignore_patterns('.git', '__pycache__', '*.egg-info'))
            p = subprocess.run(['patch', '-p1', '-s', '-i', os.path.join(d, 'patch.diff')], cwd=root, capture_output=True, text=True)
            if p.returncode != 0:
                # the tree has moved on under the patch (a later fix: commit touched the same lines): merge it three-way
                # in a scratch git worktree (the patch names its base blobs) and take the merged files
                wt = tempfile.mkdtemp(prefix='seedre-wt-')
                os.rmdir(wt)
                subprocess.run(['git', '-C', '/repo', 'worktree', 'add', '-q', '--detach', wt, 'HEAD'], capture_output=True)
                q = subprocess.run(['git', '-C', wt, 'apply', '--3way', os.path.join(d, 'patch.diff')], capture_output=True, text=True)
                merged = q.returncode == 0 and not subprocess.run(['git', '-C', wt, 'diff', '--name-only', '--diff-filter=U'],
                                                                  capture_output=True, text=True).stdout.strip()
                if merged:
                    shutil.rmtree(os.path.join(root, 'aiuti'))
                    shutil.copytree(os.path.join(wt, 'aiuti'), os.path.join(root, 'aiuti'), ignore=shutil.ignore_patterns('__pycache__'))
                subprocess.run(['git', '-C', '/repo', 'worktree', 'remove', '--force', wt], capture_output=True)
                subprocess.run(['git', '-C', '/repo', 'worktree', 'prune'], capture_output=True)
                if not merged:
                    rec = {'status': 'patch no longer applies', 'detail': (p.stdout + p.stderr + q.stderr)[-300:]}
                else:
                    rec['merged_three_way'] = True
            if 'status' not in rec:
                rec['checks'] = {}
                for pid in props:
                    env = dict(os.environ, VERIF_REPO=root, VERIF_SEED=a.seed, VERIF_STOP_ON_VIOLATION='1',
                               VERIF_EVIDENCE_DIR=os.path.join(root, '_evidence'), VERIF_REPLAY_DIR=os.path.join(root, '_replays'))
                    q = subprocess.run([os.path.join(HERE, 'check'), pid, '--tier', 'quick'], env=env, capture_output=True, text=True, timeout=1200)
                    rec['checks'][pid] = {'rc': q.returncode,
                                          'signatures': [l.strip().split(':')[1] for l in q.stdout.splitlines() if l.startswith('  C')][:4]}
                rec['status'] = 'caught' if any(c['rc'] == 1 for c in rec['checks'].values()) else 'NOT CAUGHT'
        finally:
            shutil.rmtree(root, ignore_errors=True)
        rec['seconds'] = round(time.time() - t0, 1)
        results[name] = rec
        print(f"{name:45s} {rec['status']:14s} {rec.get('checks', '')}", flush=True)
        json.dump(results, open(out_path, 'w'), indent=1, sort_keys=True)
    n = sum(1 for r in results.values() if r['status'] == 'caught')
    print(f'{n} caught / {len(results)}')


main()
