"""C12 - FileLock against an executable Lock/RLock-over-one-file reference model.

Operations are executed *sequentially* by two registered sim threads (Engine A,
virtual time, no voluntary context switches), compared after every step with a
~40-line model: return value, elapsed virtual time, is_locked of every object,
descriptor census (/proc/self/fd and the os proxy's open-close count) and, at
the end, acquirability by every thread of every object.  OSError injection at
every call index of open / lock / unlock / close (single and pairs).
"""
from __future__ import annotations

import itertools
import os
import pathlib
import random
import tempfile

from vf import simrt
from vf.core import Check, CaseResult, EPS

POLL = 0.05
TAU = 96.0 / 1024          # 0.09375: not a multiple of the poll interval
ACQ_OPS = ('acq', 'nb', 'timed', 'timed0', 'ctx', 'with', 'nbneg')
OPS = ACQ_OPS + ('rel', 'relf')
MAXDEPTH = 3


class Model:
    def __init__(self, nobj, reentrant, deft):
        self.n = nobj
        self.re = reentrant
        self.deft = deft                # default timeout per object (-1 or TAU)
        self.owner = [None] * nobj
        self.depth = [0] * nobj
        self.os = None

    def key(self):
        return (tuple(self.owner), tuple(self.depth), self.os)

    def copy(self):
        m = Model(self.n, self.re, self.deft)
        m.owner = list(self.owner)
        m.depth = list(self.depth)
        m.os = self.os
        return m

    def mode(self, o, op):
        """-> ('b'|'nb'|'t', tau)"""
        if op in ('acq', 'with'):
            return ('b', None) if self.deft[o] < 0 else ('t', self.deft[o])
        if op in ('nb', 'nbneg'):
            return ('nb', None)
        if op == 'timed0':
            return ('t', 0.0)
        return ('t', TAU)              # timed, ctx

    def would_block_forever(self, t, o, op):
        if self.mode(o, op)[0] != 'b':
            return False
        if self.owner[o] is not None and not (self.re and self.owner[o] == t):
            return True
        return self.os is not None and self.os != o

    def predict(self, t, o, op):
        """-> (result, min elapsed, max elapsed); does not change the model"""
        mode, tau = self.mode(o, op)
        if self.re and self.owner[o] == t:
            return True, 0.0, 0.0
        if self.owner[o] is not None:
            return (False, 0.0, 0.0) if mode == 'nb' else (False, tau, tau)
        if self.os is not None and self.os != o:
            if mode == 'nb':
                return False, 0.0, 0.0
            return False, tau, tau + POLL
        return True, 0.0, 0.0

    def apply_acquired(self, t, o):
        if self.re and self.owner[o] == t:
            self.depth[o] += 1
        else:
            self.owner[o] = t
            self.depth[o] = 1
            self.os = o

    def in_contract_release(self, t, o):
        return self.os != o or self.owner[o] == t

    def release(self, t, o, force):
        if self.os != o:
            return
        self.depth[o] -= 1
        if self.depth[o] == 0 or force:
            self.depth[o] = 0
            self.owner[o] = None
            self.os = None


def legal(m: Model, t, o, op):
    if op in ACQ_OPS:
        if m.would_block_forever(t, o, op):
            return False
        if m.re and m.owner[o] == t and m.depth[o] >= MAXDEPTH:
            return False
        return True
    return m.in_contract_release(t, o)


def model_step(m: Model, t, o, op):
    if op in ACQ_OPS:
        if m.predict(t, o, op)[0]:
            m.apply_acquired(t, o)
    else:
        m.release(t, o, op == 'relf')


def alphabet(nobj):
    return [(t, o, op) for t in (0, 1) for o in range(nobj) for op in OPS]


def enum_sequences(cfg, length):
    """All legal sequences of exactly `length` ops, first op by thread 0 on object 0."""
    nobj, re, deft = cfg
    alpha = alphabet(nobj)

    def rec(m, prefix):
        if len(prefix) == length:
            yield list(prefix)
            return
        for a in alpha:
            if not prefix and (a[0] != 0 or a[1] != 0):
                continue
            if not legal(m, *a):
                continue
            m2 = m.copy()
            model_step(m2, *a)
            prefix.append(a)
            yield from rec(m2, prefix)
            prefix.pop()

    yield from rec(Model(nobj, re, deft), [])


def transition_sequences(cfg, depth):
    """For every model state reachable within `depth` ops (canonical shortest path)
    x every legal op: path + [op]."""
    nobj, re, deft = cfg
    alpha = alphabet(nobj)
    start = Model(nobj, re, deft)
    seen = {start.key(): []}
    frontier = [(start, [])]
    for _ in range(depth):
        nxt = []
        for m, path in frontier:
            for a in alpha:
                if not legal(m, *a):
                    continue
                m2 = m.copy()
                model_step(m2, *a)
                if m2.key() not in seen:
                    seen[m2.key()] = path + [a]
                    nxt.append((m2, path + [a]))
        frontier = nxt
    out = []
    for key, path in seen.items():
        m = Model(nobj, re, deft)
        for a in path:
            model_step(m, *a)
        for a in alpha:
            if legal(m, *a):
                out.append(path + [a])
    return out, len(seen)


def random_sequence(rng, cfg, n):
    nobj, re, deft = cfg
    alpha = alphabet(nobj)
    m = Model(nobj, re, deft)
    seq = []
    for _ in range(n):
        for _try in range(30):
            a = alpha[rng.randrange(len(alpha))]
            if legal(m, *a):
                model_step(m, *a)
                seq.append(a)
                break
    return seq


CONFIGS = [(nobj, re, deft)
           for nobj in (1, 2) for re in (False, True)
           for deft in ([-1] * nobj, [TAU] * nobj)]


def nfds():
    return len(os.listdir('/proc/self/fd'))


class _FsPathOnly:
    def __init__(self, p):
        self._p = p

    def __fspath__(self):
        return self._p

    def __repr__(self):
        return '<a PathLike without str()>'


class Runner:
    def __init__(self, F, path):
        self.F = F
        self.path = path

    def run(self, cfg, seq, faults=()):
        """-> (result, errs, info).  errs = list of (sig, what, detail)."""
        F = self.F
        path = self.path
        nobj, re, deft = cfg
        errs = []
        info = {'fired': [], 'counts': None, 'states': set(), 'trans': set(), 'flags': set()}
        m = Model(nobj, re, deft)
        plan = simrt.FaultPlan(faults)

        def main(s):
            st = simrt.OSS[0]
            st.plan = plan
            fd0 = nfds()
            # the path is given in the spellings os.PathLike allows: a str, a pathlib.Path, an object that only has __fspath__
            # (its str() is not the path) - all name the same lock file
            spell = [path, pathlib.Path(path), _FsPathOnly(path)]
            objs = [F.FileLock(spell[(i + len(seq)) % 3], timeout=deft[i], reentrant=re) for i in range(nobj)]
            ctxs = {}
            state = {'i': 0, 'final': None}

            def census(where):
                n_proxy = len(st.open_fds)
                n_proc = nfds() - fd0
                want = 1 if m.os is not None else 0
                if n_proxy != want or n_proc != want:
                    errs.append(('C12:fd-census', 'open descriptors differ from the model',
                                 {'at': where, 'proxy_open': n_proxy, 'proc_fd_delta': n_proc, 'model': want}))
                for i, ob in enumerate(objs):
                    if bool(ob.is_locked) != (m.os == i):
                        errs.append(('C12:is_locked', 'is_locked differs from the model',
                                     {'at': where, 'obj': i, 'is_locked': ob.is_locked, 'model_holder': m.os}))

            def do(idx, t, o, op):
                lock = objs[o]
                t0 = s.now
                fired0 = len(plan.fired)
                info['states'].add(m.key())
                info['trans'].add((m.key(), (t, o, op)))
                if op in ACQ_OPS:
                    exp, lo, hi = m.predict(t, o, op)
                    mode, tau = m.mode(o, op)
                    exc = None
                    try:
                        if op == 'acq':
                            got = lock.acquire()
                        elif op == 'with':
                            try:
                                lock.__enter__()
                                got = True
                            except TimeoutError:     # refusing to enter is the honest answer
                                got = False
                        elif op == 'nb':
                            got = lock.acquire(blocking=False)
                        elif op == 'nbneg':
                            got = lock.acquire(blocking=False, timeout=-1)
                        elif op == 'timed':
                            got = lock.acquire(timeout=TAU)
                        elif op == 'timed0':
                            got = lock.acquire(timeout=0)
                        else:
                            cm = lock.acquire_ctx(timeout=TAU)
                            try:
                                cm.__enter__()
                                got = True
                                ctxs.setdefault((t, o), []).append(cm)
                            except TimeoutError:
                                got = False
                    except BaseException as e:      # noqa
                        got = None
                        exc = e
                    el = s.now - t0
                    faulted = len(plan.fired) > fired0
                    where = {'step': idx, 'op': (t, o, op)}
                    if exc is not None and not faulted:
                        errs.append(('C12:acquire-raised', f'acquire raised {type(exc).__name__} with no fault injected',
                                     dict(where, exc=repr(exc))))
                    if got is True:
                        if not exp:
                            if op == 'with':
                                errs.append(('C12:with-entered-without-lock',
                                             'with-statement body entered although the lock was not acquired',
                                             dict(where, elapsed=el)))
                                info['flags'].add('with_unheld')
                                # the body runs unprotected; the model state is unchanged and the
                                # matching __exit__/release is a release by a non-holder
                                return
                            errs.append(('C12:true-but-contended', 'acquire returned True while another holder exists',
                                         dict(where)))
                        m.apply_acquired(t, o)
                        if not (lo - EPS <= el <= hi + EPS) and not faulted:
                            errs.append(('C12:time', 'elapsed time outside the bound', dict(where, elapsed=el, lo=lo, hi=hi)))
                    else:
                        if exp and not faulted:
                            errs.append(('C12:false-but-free', 'acquire failed although the lock was free',
                                         dict(where, got=repr(got))))
                        # (an injected OSError may end a doomed attempt early: only upper bounds apply then)
                        if not exp and not faulted and not (lo - EPS <= el <= hi + EPS):
                            errs.append(('C12:time', 'elapsed time outside the bound',
                                         dict(where, elapsed=el, lo=lo, hi=hi)))
                        if faulted:
                            # bounded also under faults
                            bound = 0.0 if mode == 'nb' else (2 * tau + POLL if mode == 't' else None)
                            if bound is not None and el > bound + EPS:
                                errs.append(('C12:time-under-fault', 'failed attempt took longer than its bound',
                                             dict(where, elapsed=el, bound=bound)))
                        if exp and faulted:
                            info['flags'].add('fault_turned_success_into_failure')
                    if got is False or exc is not None:
                        info['flags'].add('refused')
                else:
                    force = op == 'relf'
                    held_before = m.os == o
                    if force and m.depth[o] > 1:
                        info['flags'].add('forced_at_depth')
                    m.release(t, o, force)
                    try:
                        cms = ctxs.get((t, o))
                        if cms and not force:
                            cms.pop().__exit__(None, None, None)
                        else:
                            lock.release(force=force)
                    except BaseException as e:      # noqa
                        errs.append(('C12:release-raised', f'release raised {type(e).__name__}',
                                     {'step': idx, 'op': (t, o, op), 'held': held_before}))
                    if s.now - t0 > EPS:
                        errs.append(('C12:release-blocked', 'release took time', {'step': idx}))
                    if not held_before:
                        info['flags'].add('release_unheld')
                census({'step': idx, 'op': (t, o, op)})

            def worker(t):
                def body():
                    while True:
                        s.block(lambda: state['i'] >= len(seq) or seq[state['i']][0] == t
                                or state['final'] == t, None, 'turn')
                        if state['final'] == t:
                            plan.faults = set()          # clean-up and probes run fault-free
                            for o in range(nobj):
                                while m.owner[o] == t:
                                    m.release(t, o, False)
                                    objs[o].release()
                            state['final'] = ('done', t)
                            return
                        if state['i'] >= len(seq):
                            s.block(lambda: state['final'] == t, None, 'fin')
                            continue
                        tt, o, op = seq[state['i']]
                        # an injected fault can make the tracked state differ from the one the sequence was
                        # generated for: steps that are then outside the contract (releasing another thread's
                        # lock, a blocking acquire that can never succeed) are skipped, not executed
                        if legal(m, tt, o, op):
                            do(state['i'], tt, o, op)
                        else:
                            info['flags'].add('step_skipped_out_of_contract_after_fault')
                        state['i'] += 1
                return body

            s.spawn(worker(0), 'W0')
            s.spawn(worker(1), 'W1')
            s.block(lambda: state['i'] >= len(seq), None, 'main')
            info['counts'] = dict(plan.count)       # call indices used by the sequence itself
            for t in (0, 1):
                state['final'] = t
                s.block(lambda: state['final'] == ('done', t), None, 'main2')
            census({'step': 'after-cleanup'})
            res = {}

            def prober(t):
                def body():
                    for o in range(nobj):
                        g = objs[o].acquire(blocking=False)
                        res[t, o] = g
                        if g is True:
                            objs[o].release()
                return body

            for t in (0, 1):
                p = s.spawn(prober(t), f'P{t}')
                s.block(lambda: p.st == simrt.DONE, None, 'main3')
            for (t, o), g in sorted(res.items()):
                if g is not True:
                    errs.append(('C12:not-acquirable-after-release',
                                 'after everything was released a thread cannot acquire the lock',
                                 {'thread': t, 'obj': o, 'got': repr(g)}))
            census({'step': 'final'})
            del objs

        r = simrt.execute(main, simrt.Strategy('none'), max_steps=20000, watchdog=30.0)
        info['fired'] = list(plan.fired)
        if info['counts'] is None:
            info['counts'] = dict(plan.count)
        if r.verdict in ('deadlock', 'stepbound', 'timebound'):
            errs.append(('C12:blocks-although-free',
                         f'{r.verdict}: an operation the model says completes never returned',
                         {'blocked': r.blocked, 'sequence_prefix_done': None}))
        return r, errs, info


class C12(Check):
    pid = 'C12'
    level = 'fault_enumeration'
    anchors = ('BaseFileLock', 'UnixFileLock')
    budget = {'quick': 45.0, 'thorough': 760.0}
    assumptions = [
        'model families: operations are executed one at a time (no interleaving inside an operation); virtual time',
        'concurrent family: C02\'s interleaved scenarios (30 %: with one OSError injected underneath an acquire() - at the n-th open / flock / close made inside any thread\'s acquire()); judged there: no two threads inside the section at once, residue after everybody released (holder flags, '
        'descriptors, every object and a fresh one acquirable at once), nobody blocked for ever, time bounds of non-blocking '
        '(at once) and timed acquires (2 x timeout + poll interval, not counting long preemptions injected into the caller), '
        'no OSError out of a lock operation (no fault is injected in this family)',
        'sim Lock/RLock/time inside aiuti.filelock; real kernel flock on a fresh descriptor per acquisition',
        'release only by the acquiring thread (releasing another thread\'s lock is outside the contract)',
        'an injected close() failure really closes the descriptor first, as Linux does',
        'reentrant nesting capped at depth 3 in generated sequences',
    ]
    rule = ('cases = (config, operation sequence[, fault set]) with config in {1,2 objects} x {reentrant, not} x '
            '{default timeout -1, small}, the path given as str / pathlib.Path / a bare __fspath__ object; sequences enumerated completely up to the stated length (first op by '
            'thread 0 on object 0 to break symmetry), every (model state reachable in <= 6 ops) x (op) transition, '
            'random sequences up to length 30; ten sequences in a real process whose standard streams are closed (lock file on '
            'descriptor 0-2); fault cases inject OSError at every call index of '
            'open/lock/unlock/close (single; pairs in thorough) observed in a fault-free dry run of the sequence; '
            'non-trivial = the sequence contains a refused / timed-out acquire, a nested acquire, a forced release, '
            'a release of an unheld lock, or an injected fault that fired; distinct = distinct (config, sequence, faults)')

    def setup(self):
        import aiuti.filelock as F
        simrt.prepare([F])
        self.dir = tempfile.mkdtemp(prefix='c12-')
        self.r = Runner(F, os.path.join(self.dir, 'm.lock'))
        from vf.props import flock as _flock
        self._flock = _flock
        self.ch = _flock.FlockHarness(F, os.path.join(self.dir, 'conc.lock'))

    def run_concurrent(self, case):
        """The same contract under line-level interleavings of 2-4 threads (C02's scenarios): once every thread
        has released what it acquired, nothing may be left behind - no holder flag, no descriptor, and every
        object (and a fresh one) must be acquirable at the first non-blocking attempt."""
        rng = random.Random(case['seed'])
        scen = self._flock.gen(rng)
        k = rng.random()
        if k < 0.6:
            strat = simrt.Strategy('random', rng.choice([0.05, 0.2, 0.5]), seed=rng.randrange(1 << 30))
        elif k < 0.8:
            strat = simrt.Strategy('pct', d=3, span=rng.choice([100, 300, 800]), seed=rng.randrange(1 << 30))
        else:
            strat = simrt.Strategy('stall', p=rng.choice([0.0, 0.15]), thread=f'W{rng.randrange(len(scen["threads"]))}',
                                   k=rng.randrange(1, 120), seed=rng.randrange(1 << 30))
        delays = None
        if rng.random() < 0.3:
            # a long preemption of one thread at one line of acquire() / release()
            delays = [{'thread': f'W{rng.randrange(len(scen["threads"]))}',
                       'qual': rng.choice(['BaseFileLock.acquire', 'BaseFileLock.acquire', 'BaseFileLock.release', 'BaseFileLock._acquire']),
                       'nth': rng.randint(1, 25), 'd': rng.choice([0.05, 0.2, 0.5])}]
        faults = None
        if rng.random() < 0.3:
            # ... and one OSError injected underneath an acquire(): at the n-th open / flock / close made inside any
            # thread's acquire() (an attempt that fails, or one that would have succeeded), while the others go on
            faults = [(rng.choice(['open', 'lock', 'close', 'close']), rng.randrange(0, 6))]
        r = self.ch.run(scen, strat, probes=True, delays=delays, faults=faults)
        res = CaseResult()
        st = res.stats
        res.sig = r.signature
        fired = [e[1] for e in r.log if e[0] == 'faults_fired']
        fired = fired[0] if fired else []
        if fired:
            st['concurrent_with_fault_inside_acquire'] += 1
            st[f'concurrent_fault_{fired[0][0]}'] += 1
        close_fault = any(f[0] == 'close' for f in fired)
        if r.verdict == 'watchdog' or not r.clean:
            res.dirty = True
        if r.verdict == 'watchdog':
            res.inconclusive = 'wall-clock watchdog'
            return res
        what = {'scenario': scen, 'strategy': strat.describe()}
        if r.thread_errors:
            if all('OSError' in repr(e[1]) for e in r.thread_errors):
                # no fault is injected in this family: an OSError leaving acquire()/release()/__del__ is the lock's own
                res.violate('C12:unexpected-oserror', 'a lock operation raised an OS error although nothing failed underneath',
                            errors=repr(r.thread_errors[:2]), **what)
                res.sample = {'kind': 'concurrent', 'scenario': scen, 'log': r.log[-40:]}
                return res
            res.inconclusive = 'thread error: ' + repr(r.thread_errors[:2])
            return res
        st['executions'] += 1
        st['kind_concurrent'] += 1
        if r.sched.delays_fired:
            st['concurrent_long_delay_injected'] += 1
        # time bounds: a non-blocking attempt returns at once, a timed one within timeout (in-process stage) + timeout
        # (OS stage) + one poll interval; long preemptions injected into that very thread meanwhile do not count
        open_calls = {}
        for e in r.log:
            if e[0] == 't_call':
                open_calls[e[1]] = e
            elif e[0] == 't_ret' and e[1] in open_calls:
                c = open_calls.pop(e[1])
                t0, t1 = c[-1], e[-1]
                inj = sum(d[2] for d in r.sched.delays_fired if d[0] == e[1] and t0 - 1e-9 <= d[3] <= t1 + 1e-9)
                limit = 0.0 if c[2] == 'nb' or c[3] == 0 else 2 * c[3] + 0.05
                st['acquire_time_bounds_judged'] += 1
                if t1 - t0 - inj > limit + 1e-4:
                    res.violate('C12:acquire-too-slow', 'a non-blocking / timed acquire took longer than its bound',
                                thread=e[1], kind=c[2], timeout=c[3], took=t1 - t0, injected=inj, limit=limit, result=e[2], **what)
        if r.verdict is not None:
            res.violate('C12:blocks-although-free', f'{r.verdict} under concurrent use: an acquire never returned although '
                        'every holder releases', blocked=r.blocked, **what)
        for e in r.log:
            if e[0] == 'all_released':
                if any(e[1]):
                    res.violate('C12:is_locked', 'an object still reports is_locked after every thread released', flags=e[1], **what)
                if e[2] != 0 and not close_fault:      # (a close that was made to fail leaves its descriptor open by construction)
                    res.violate('C12:fd-census', 'descriptors still open after every thread released', open=e[2], **what)
            elif e[0] == 'probe' and e[2] is not True:
                res.violate('C12:not-acquirable-after-release', 'after everything was released a thread cannot acquire the lock',
                            obj=e[1], got=repr(e[2]), **what)
            elif e[0] == 'enter' and e[3] > 1:
                res.violate('C12:two-holders', 'two threads were inside the protected section at once', who=e[1], **what)
            elif e[0] == 'final_fds' and e[1] != 0 and not close_fault:
                res.violate('C12:fd-census', 'descriptors left open at the end', open=e[1], **what)
        contended = any(e[0] == 'refused' for e in r.log)
        res.nontrivial = contended
        if contended:
            st['nontrivial'] += 1
            st['concurrent_contended'] += 1
            res.sample = {'kind': 'concurrent', 'scenario': scen, 'log': r.log[:40]}
        if res.violations:
            res.sample = {'kind': 'concurrent', 'scenario': scen, 'log': r.log[-40:], 'switches': r.sched.switches[-12:]}
        return res

    PLAN = {
        'quick': {'len': 3, 'trans_depth': 6, 'fault_len': 2, 'fault_sample3': 600, 'pairs_len': 0,
                  'random': 3000, 'pair_sample': 150, 'concurrent': 8000},
        'thorough': {'len': 4, 'trans_depth': 6, 'fault_len': 3, 'fault_sample3': 0, 'pairs_len': 2,
                     'random': 60000, 'pair_sample': 3000, 'len5_sample': 150000, 'concurrent': 250000},
    }

    def cases(self, tier, seed):
        # the concurrent family is interleaved with the model families so that a time-truncated run covers both
        p = self.PLAN[tier]
        nconc, k = p['concurrent'], 0
        every = 6
        for i, case in enumerate(self._model_cases(tier, seed)):
            yield case
            if k < nconc and i % every == 0:
                yield {'kind': 'concurrent', 'seed': (seed << 32) + k}
                k += 1
        while k < nconc:
            yield {'kind': 'concurrent', 'seed': (seed << 32) + k}
            k += 1

    def _model_cases(self, tier, seed):
        p = self.PLAN[tier]
        for reentrant in (0, 1):
            for closed in ('0', '01', '012', '2', '12'):
                yield {'kind': 'lowfd', 'reentrant': reentrant, 'closed': closed}
        rng = random.Random(seed * 65537 + 3)
        for ci, cfg in enumerate(CONFIGS):
            for L in range(1, p['len'] + 1):
                for seq in enum_sequences(cfg, L):
                    yield {'cfg': ci, 'seq': seq, 'kind': 'enum'}
            seqs, nstates = transition_sequences(cfg, p['trans_depth'])
            for seq in seqs:
                if len(seq) > p['len']:
                    yield {'cfg': ci, 'seq': seq, 'kind': 'transition'}
            for L in range(1, p['fault_len'] + 1):
                for seq in enum_sequences(cfg, L):
                    yield {'cfg': ci, 'seq': seq, 'kind': 'fault1'}
            for L in range(1, p['pairs_len'] + 1):
                for seq in enum_sequences(cfg, L):
                    yield {'cfg': ci, 'seq': seq, 'kind': 'fault2'}
        for i in range(p['random']):
            ci = rng.randrange(len(CONFIGS))
            yield {'cfg': ci, 'seq': random_sequence(rng, CONFIGS[ci], rng.randrange(5, 31)), 'kind': 'random'}
        for i in range(p['fault_sample3']):
            ci = rng.randrange(len(CONFIGS))
            yield {'cfg': ci, 'seq': random_sequence(rng, CONFIGS[ci], rng.randrange(3, 7)), 'kind': 'fault1'}
        for i in range(p['pair_sample']):
            ci = rng.randrange(len(CONFIGS))
            yield {'cfg': ci, 'seq': random_sequence(rng, CONFIGS[ci], rng.randrange(2, 6)), 'kind': 'fault2'}
        for i in range(p.get('len5_sample', 0)):
            ci = rng.randrange(len(CONFIGS))
            yield {'cfg': ci, 'seq': random_sequence(rng, CONFIGS[ci], 5), 'kind': 'random'}

    def run_lowfd(self, case):
        """The contract in a real process whose standard streams are closed, so that the lock file's descriptor is 0, 1 or 2."""
        import subprocess, json as _json
        from vf.core import PY, VERIF, REPO
        res = CaseResult()
        st = res.stats
        d = tempfile.mkdtemp(prefix='c12low-', dir=self.dir)
        rep = os.path.join(d, 'report.json')
        env = dict(os.environ, PYTHONPATH=os.pathsep.join([REPO, VERIF]), PYTHONDONTWRITEBYTECODE='1')
        try:
            p = subprocess.run([PY, '-m', 'vf.props.lowfd_child', os.path.join(d, 'x.lock'), rep, str(case['reentrant']), case['closed']],
                               env=env, cwd=VERIF, stdin=subprocess.DEVNULL, stdout=subprocess.DEVNULL, stderr=subprocess.DEVNULL, timeout=120)
            obs = _json.load(open(rep))
        except subprocess.TimeoutExpired:
            res.violate('C12:low-descriptor:hang', 'a process with closed standard streams hung in the lock sequence', case=case)
            return res
        except Exception as e:      # noqa
            res.inconclusive = f'low-descriptor child gave no report: {e!r}'
            return res
        finally:
            import shutil
            shutil.rmtree(d, ignore_errors=True)
        st['executions'] += 1
        st['kind_lowfd'] += 1
        low = False
        for o in obs:
            bad = None
            if o[0] == 'error':
                bad = f'an operation raised {o[1]}'
            elif o[0] == 'acquire':
                low = low or any(x <= 2 for x in o[4])
                if o[2] is not True or o[3] is not True or len(o[4]) != 1:
                    bad = f'acquire of a free lock: returned {o[2]}, is_locked {o[3]}, descriptors held {o[4]}'
            elif o[0] == 'nested' and (o[2] is not True or o[3] is not True):
                bad = 'nested acquire refused'
            elif o[0] == 'after_inner_release' and o[2] is not True:
                bad = 'inner release dropped the lock'
            elif o[0] == 'other_object_refused' and (o[2] is not False or o[3] is not False):
                bad = 'a second object acquired the held lock'
            elif o[0] == 'released' and (o[2] is not False or o[3]):
                bad = f'after release: is_locked {o[2]}, descriptors still open {o[3]}'
            elif o[0] == 'other_object_after_release' and o[2] is not True:
                bad = 'after a full release another object cannot acquire'
            elif o[0] == 'end_of_round' and o[2]:
                bad = f'descriptors left open {o[2]}'
            if bad:
                res.violate('C12:low-descriptor', bad + ' (process with closed standard streams)', case=case, observations=obs)
                break
        if low:
            st['lock_file_on_descriptor_0_1_2'] += 1
        res.nontrivial = low
        if low:
            st['nontrivial'] += 1
        res.sig = f"lowfd:{case['reentrant']}:{case['closed']}"
        res.sample = {'kind': 'lowfd', 'case': case, 'observations': obs[:6]}
        return res

    def run_case(self, case):
        if case['kind'] == 'concurrent':
            return self.run_concurrent(case)
        if case['kind'] == 'lowfd':
            return self.run_lowfd(case)
        cfg = CONFIGS[case['cfg']]
        seq = [tuple(a) for a in case['seq']]
        res = CaseResult()
        st = res.stats
        kind = case['kind']
        runs = []
        if kind in ('enum', 'transition', 'random'):
            runs.append(())
        else:
            r0, errs0, info0 = self.r.run(cfg, seq, ())
            if r0.verdict == 'watchdog' or not r0.clean:
                res.dirty = True
                res.inconclusive = 'watchdog in dry run'
                return res
            cnt = info0['counts']
            sites = [(k, i) for k in ('open', 'lock', 'unlock', 'close') for i in range(cnt[k])]
            if kind == 'fault1':
                runs = [(s,) for s in sites]
            else:
                runs = [p for p in itertools.combinations(sites, 2)]
                # a second fault may only become reachable after the first: also try index+1
                runs += [((k, i), (k, cnt[k])) for k in cnt for i in range(cnt[k])]
        states = set()
        trans = set()
        nontriv = False
        for faults in runs:
            r, errs, info = self.r.run(cfg, seq, faults)
            st['executions'] += 1
            st[f'kind_{kind}'] += 1
            if r.verdict == 'watchdog' or not r.clean:
                res.dirty = True
            if r.verdict == 'watchdog':
                res.inconclusive = 'wall-clock watchdog'
                return res
            if r.thread_errors:
                res.inconclusive = 'harness thread error ' + repr(r.thread_errors[:2])
                return res
            states |= info['states']
            trans |= info['trans']
            if faults:
                st['fault_sets_injected'] += 1
                st['faults_fired'] += len(info['fired'])
                for k, _ in info['fired']:
                    st[f'fault_fired_{k}'] += 1
            for fl in info['flags']:
                st[f'seen_{fl}'] += 1
            nested = any(d > 1 for s in info['states'] for d in s[1])
            if nested:
                st['seen_nested'] += 1
            if info['flags'] or nested or info['fired']:
                nontriv = True
            seen = set()
            for sig, what, detail in errs:
                if sig in seen:
                    continue
                seen.add(sig)
                res.violate(sig, what, cfg={'nobj': cfg[0], 'reentrant': cfg[1], 'default_timeout': cfg[2]},
                            seq=seq, faults=faults, **{'detail': detail})
            if res.violations:
                break
        res.nontrivial = nontriv
        if nontriv:
            st['nontrivial'] += 1
        res.sig = ''
        res.tags = {f'model_state:{case["cfg"]}:{s}' for s in states} | \
                   {f'model_transition:{case["cfg"]}:{t}' for t in trans}
        if nontriv or res.violations:
            res.sample = {'config': {'nobj': cfg[0], 'reentrant': cfg[1], 'default_timeout': cfg[2]},
                          'sequence': seq, 'kind': kind, 'fault_sets': len(runs)}
        return res

    def floors(self, tier):
        q = tier == 'quick'
        return {'nontrivial': 5000 if q else 100000, 'faults_fired': 1000 if q else 30000,
                'fault_fired_open': 100, 'fault_fired_lock': 100, 'fault_fired_unlock': 100,
                'fault_fired_close': 100, 'seen_forced_at_depth': 50, 'seen_release_unheld': 100,
                'seen_refused': 1000, 'seen_nested': 500, 'concurrent_contended': 2500 if q else 60000,
                'lock_file_on_descriptor_0_1_2': 4, 'acquire_time_bounds_judged': 4000 if q else 100000, 'concurrent_long_delay_injected': 800 if q else 20000,
                'concurrent_with_fault_inside_acquire': 400 if q else 10000}

    def extra_evidence(self, tier, agg):
        out = {}
        total_states = 0
        for cfg in CONFIGS:
            _, n = transition_sequences(cfg, self.PLAN[tier]['trans_depth'])
            total_states += n
        out['model_states_reachable_within_depth'] = total_states
        out['exhaustive'] = False
        out['exhaustive_note'] = (f'sequences of length <= {self.PLAN[tier]["len"]} over the pruned alphabet and all '
                                  f'single fault indices for length <= {self.PLAN[tier]["fault_len"]} were enumerated '
                                  'completely; longer ones are sampled')
        return out


def get_check(pid):
    return C12()
