"""Engine B - free-running real threads, real event loops, real time.

Nothing of aiuti is replaced except the 60 s safety constant (scaled through a
proxy of the `aio` name so executions do not take minutes).  LINE events on the
aiuti code objects inject `sleep(0)` / short sleeps with a seeded probability.
The same harness code as Engine A runs on a `RealSched` that duck-types the
small part of the scheduler API the harnesses use.

Run as a child process:  python -m vf.engine_b cache <flavour> <seed> <n>
prints one JSON line {stats, violations, executions}.
"""
from __future__ import annotations

import asyncio
import collections
import json
import random
import sys
import threading
import time

SAFETY_SCALED = 0.75


class RealSched:
    def __init__(self):
        self.log = []
        self.dead = False
        self.t0 = time.monotonic()
        self.threads = []
        self.thread_errors = []
        self.loops = []
        self.mu = threading.Lock()
        self.active = {}           # inv -> (key, loop)
        self.switch_lines = set()
        self.line_cov = {}
        self.switches = []
        self.online = []           # violations seen online: (sig, what, detail)
        self.delays_fired = []

    @property
    def now(self):
        return time.monotonic() - self.t0

    def sleep(self, d):
        time.sleep(max(0.0, d or 0.0))

    def yield_point(self, tag=None, forced=False):
        time.sleep(0)

    def at(self, *a):
        raise NotImplementedError('scheduler hooks do not exist under Engine B')

    def block(self, pred=None, deadline=None, tag=None):
        """poll in real time; virtual deadlines of the harnesses (hundreds of seconds) are capped"""
        end = time.monotonic() + (15.0 if deadline is None else min(15.0, max(0.0, deadline - self.now)))
        while time.monotonic() < end:
            if pred is not None and pred():
                return True
            time.sleep(0.001)
        return bool(pred and pred())

    max_runners_seen = 0

    def spawn(self, fn, name=None, daemon=False):
        def body():
            try:
                fn()
            except BaseException as e:     # noqa
                self.thread_errors.append((name, repr(e)))
        t = threading.Thread(target=body, name=name, daemon=True)
        self.threads.append(t)
        t.start()
        return t

    # ---- online overlap monitor (its state is updated under its own lock) ----
    def inv_begin(self, key, n, loop):
        with self.mu:
            for m, (k, lp) in self.active.items():
                if k == key and lp.is_running():
                    self.online.append(('C01:overlap', 'two invocations of one key in progress on running loops',
                                        {'first': m, 'second': n, 'first_loop': lp.sim_name, 'second_loop': loop.sim_name}))
            self.active[n] = (key, loop)

    def inv_end(self, n):
        with self.mu:
            self.active.pop(n, None)

    def loop_stopped(self, loop):
        with self.mu:
            for n in [n for n, (k, lp) in self.active.items() if lp is loop]:
                del self.active[n]


CURB: list = [None]


class RealLoop(asyncio.SelectorEventLoop):
    _seq = 0

    def __init__(self):
        super().__init__()
        s = CURB[0]
        RealLoop._seq += 1
        self.sim_name = f'L{len(s.loops) + 1}' if s is not None else f'loop{RealLoop._seq}'
        if s is not None:
            s.loops.append(self)
        self.on_stop = None
        self._sim_runners = 0
        self._sim_max_runners = 0

    def run_forever(self):
        self._sim_runners += 1
        self._sim_max_runners = max(self._sim_max_runners, self._sim_runners)
        sc = CURB[0]
        if sc is not None and self._sim_runners > sc.max_runners_seen:
            sc.max_runners_seen = self._sim_runners
        try:
            return super().run_forever()
        finally:
            self._sim_runners -= 1
            s = CURB[0]
            if s is not None:
                s.loop_stopped(self)
            if self.on_stop is not None:
                self.on_stop(self)


class RealPolicy(asyncio.DefaultEventLoopPolicy):
    def new_event_loop(self):
        return RealLoop()


class Result:
    pass


def execute(main, strategy=None, max_steps=None, lines=True, watchdog=30.0, pre=None, **kw):
    watchdog = min(watchdog, 20.0)
    s = RealSched()
    CURB[0] = s
    try:
        t = s.spawn(lambda: main(s), 'main')
        deadline = time.monotonic() + watchdog
        verdict = None
        i = 0
        while True:
            ths = list(s.threads)
            if i >= len(ths):
                break
            ths[i].join(max(0.0, deadline - time.monotonic()))
            if ths[i].is_alive():
                verdict = 'watchdog'
                break
            i += 1
    finally:
        s.dead = True
        CURB[0] = None
    r = Result()
    r.verdict = verdict
    r.log = s.log
    r.sched = s
    r.clean = verdict is None
    r.blocked = []
    r.thread_errors = list(s.thread_errors)
    r.signature = ''
    r.steps = 0
    r.switches = 0
    r.now = s.now
    r.cache = None
    r.extra = None
    return r


_injected = [0]


def install_injection(mod, seed, p):
    from vf.simrt import module_code_objects
    mon = sys.monitoring
    mon.use_tool_id(4, 'verif-engine-b')
    rng = random.Random(seed)
    lock = threading.Lock()

    def cb(code, line):
        with lock:
            x = rng.random()
        if x < p:
            _injected[0] += 1
            time.sleep(0 if x < p * 0.6 else 0.0001 + x * 0.004)

    mon.register_callback(4, mon.events.LINE, cb)
    for co in module_code_objects(mod):
        mon.set_local_events(4, co, mon.events.LINE)


class _AioProxy:
    """`aio` as seen by aiuti.asyncio: identical, except that the 60 s safety wait is scaled."""

    def __getattr__(self, n):
        return getattr(asyncio, n)

    @staticmethod
    def wait_for(fut, timeout):
        if timeout == 60:
            timeout = SAFETY_SCALED
        return asyncio.wait_for(fut, timeout)


def run_cache(flavour, seed, n):
    import logging
    logging.disable(logging.CRITICAL)
    import warnings
    warnings.simplefilter('ignore')
    import aiuti.asyncio as A
    from vf.props import cache as C
    from vf.core import CaseResult, jsonable
    asyncio.set_event_loop_policy(RealPolicy())
    A.aio = _AioProxy()
    install_injection(A, seed, 0.12)
    h = C.CacheHarness(A, execute=execute)
    stats = collections.Counter()
    viols = []
    rng0 = random.Random(seed)
    for i in range(n):
        rng = random.Random(rng0.randrange(1 << 60))
        scen = C.gen_takeover(rng, flavour) if rng.random() < 0.35 else C.gen_rand(rng, flavour)
        while any(d == C.LONG for d, _ in scen['inv']):
            # computations outlasting the (scaled) safety timeout are a virtual-time subject: not in real time
            scen = C.gen_rand(rng, flavour)
        # real time: keep executions short and free of 60 s-class stalls
        for th in scen['threads']:
            th['pause'] = min(th['pause'], 0.05)
        r = h.run(scen, None, None)
        stats['real_executions'] += 1
        if r.verdict == 'watchdog':
            stats['real_watchdog_inconclusive'] += 1
            import faulthandler
            sys.stderr.write('WATCHDOG scenario: ' + json.dumps(scen, default=repr) + '\n')
            faulthandler.dump_traceback(file=sys.stderr, all_threads=True)
            for e in r.log[-40:]:
                sys.stderr.write(repr(e) + '\n')
            break                      # threads may be stuck: this process is done
        if r.thread_errors:
            stats['real_thread_errors'] += 1
            viols.append({'sig': 'B:harness-thread-error', 'what': repr(r.thread_errors[:2]), 'detail': {}})
            continue
        res = CaseResult()
        v = C.View(r.log, none_result=scen.get('result') == 'none')
        if flavour == 'c01':
            seen = set()
            for sig, what, detail in r.sched.online:
                if sig not in seen:
                    seen.add(sig)
                    res.violate(sig, what, **detail)
            C.judge_c01(v, res, retaining=True, overlap=False)
        else:
            C.judge_c06(v, res, getattr(r, 'cache', None), scen)
        C.classify_waits(v, res)
        stats.update(res.stats)
        if any(e[0] == 'call' for e in r.log):
            stats['real_executions_with_calls'] += 1
        for vv in res.violations:
            vv['detail'] = jsonable({'scenario': scen, 'log': r.log[:80], 'detail': vv['detail']})
            viols.append(vv)
    stats['real_injected_yields'] = _injected[0]
    print(json.dumps({'stats': dict(stats), 'violations': viols[:5], 'nviol': len(viols)}))
    sys.stdout.flush()
    import os
    os._exit(0)


def batch_case(kind, flavour, seed, n, nontrivial_key, timeout=420):
    """Parent side: run one Engine B batch in a child process and fold what it observed into a CaseResult."""
    import os
    import subprocess
    from vf.core import CaseResult, PY, VERIF, REPO
    res = CaseResult()
    env = dict(os.environ, PYTHONPATH=os.pathsep.join([REPO, VERIF]), PYTHONHASHSEED='0')
    try:
        p = subprocess.run([PY, '-m', 'vf.engine_b', kind, flavour, str(seed), str(n)], env=env, cwd=VERIF,
                           capture_output=True, timeout=timeout)
        out = json.loads(p.stdout.decode().strip().splitlines()[-1])
    except Exception as e:        # noqa
        res.inconclusive = f'engine B child failed: {e!r}'
        return res
    res.stats.update(out['stats'])
    res.stats['fam_real'] += 1
    for v in out['violations']:
        if v['sig'].startswith('B:'):
            res.inconclusive = 'engine B: ' + v['what']
        else:
            res.violations.append({'sig': v['sig'], 'what': v['what'] + ' [Engine B, real threads]', 'detail': v['detail']})
    res.nontrivial = out['stats'].get(nontrivial_key, 0) > 0
    res.sig = f"real:{seed}:{out['stats'].get('real_injected_yields', 0)}"
    res.sample = {'engine': 'B (free-running real threads, LINE-level sleep injection)',
                  'executions': out['stats'].get('real_executions'),
                  'injected_yields': out['stats'].get('real_injected_yields'),
                  'watchdog_inconclusive': out['stats'].get('real_watchdog_inconclusive', 0)}
    if res.nontrivial:
        res.stats['nontrivial'] += 1
    return res


def _common_setup(seed, p=0.12):
    import logging
    logging.disable(logging.CRITICAL)
    import warnings
    warnings.simplefilter('ignore')
    import aiuti.asyncio as A
    asyncio.set_event_loop_policy(RealPolicy())
    install_injection(A, seed, p)
    return A


def _scale(x, f):
    return x * f if isinstance(x, float) else x


def run_buffer(flavour, seed, n):
    """C03 / C07 safety oracles (loss, phantom, retry, exactly-once, barrier) with real threads and real time."""
    A = _common_setup(seed)
    from vf.props import buffer as Bf
    from vf.core import CaseResult, jsonable
    h = Bf.BufferHarness(A, execute=execute)
    stats = collections.Counter()
    viols = []
    rng0 = random.Random(seed)
    F = 0.25          # real time: quarter-size durations (timeout 16 ms or 62 ms)
    for i in range(n):
        rng = random.Random(rng0.randrange(1 << 60))
        prog = Bf.gen(rng, flavour)
        if prog['shutdown'] is not None:
            continue
        prog['cfg']['T'] *= F
        prog['cfg']['fdur'] *= F
        prog['cfg']['debug'] = prog['cfg']['debug'] and rng.random() < 0.5
        for a in prog['acts']:
            a['t'] *= F
            a['d'] = _scale(a['d'], F)
        for fa in prog['foreign']:
            for a in fa:
                a['t'] *= F
        if prog.get('migrate'):
            for a in prog['migrate']['phase2']:
                a['t'] *= F
        r = h.run(prog, None, flavour)
        stats['real_executions'] += 1
        if r.verdict == 'watchdog':
            stats['real_watchdog_inconclusive'] += 1
            import faulthandler
            sys.stderr.write('WATCHDOG program: ' + json.dumps(prog, default=repr) + '\n')
            faulthandler.dump_traceback(file=sys.stderr, all_threads=True)
            break
        if r.thread_errors:
            viols.append({'sig': 'B:harness-thread-error', 'what': repr(r.thread_errors[:2]), 'detail': {}})
            continue
        res = CaseResult()
        v = Bf.BView(r.log)
        if flavour == 'c03':
            Bf.judge_c03(v, res, None)
        else:
            Bf.judge_c07(v, res, r, prog)
        stats.update(res.stats)
        if prog['foreign'] or prog.get('migrate'):
            stats['real_executions_with_foreign_threads'] += 1
        for vv in res.violations:
            vv['detail'] = jsonable({'program': prog, 'log': r.log[:80], 'detail': vv['detail']})
            viols.append(vv)
    stats['real_injected_yields'] = _injected[0]
    print(json.dumps({'stats': dict(stats), 'violations': viols[:5], 'nviol': len(viols)}))
    sys.stdout.flush()
    import os
    os._exit(0)


def run_ensure(flavour, seed, n):
    """C17 identity / affinity / runner-count / completion oracles with real threads."""
    A = _common_setup(seed, p=0.15)
    from vf.props import ensure as E
    h = E.EnsureHarness(A, execute=execute)
    chk = E.C17()
    chk.h = h
    stats = collections.Counter()
    viols = []
    rng0 = random.Random(seed)
    for i in range(n):
        rng = random.Random(rng0.randrange(1 << 60))
        scen = E.gen(rng)
        scen['dep'] = False
        for c in scen['callers'] + scen.get('phase2', []):
            c.pop('role', None)
        r = h.run(scen, None)
        stats['real_executions'] += 1
        if r.verdict == 'watchdog':
            stats['real_watchdog_inconclusive'] += 1
            import faulthandler
            sys.stderr.write('WATCHDOG scenario: ' + json.dumps(scen, default=repr) + '\n')
            faulthandler.dump_traceback(file=sys.stderr, all_threads=True)
            for e in r.log[-30:]:
                sys.stderr.write(repr(e) + '\n')
            break
        if r.thread_errors:
            viols.append({'sig': 'B:harness-thread-error', 'what': repr(r.thread_errors[:2]), 'detail': {}})
            continue
        res = chk.judge(scen, r, None)
        stats.update(res.stats)
        for vv in res.violations:
            viols.append(vv)
    stats['real_injected_yields'] = _injected[0]
    print(json.dumps({'stats': dict(stats), 'violations': viols[:5], 'nviol': len(viols)}, default=repr))
    sys.stdout.flush()
    import os
    os._exit(0)


def run_iters(flavour, seed, n):
    """C16 sequence / exception identity / helper-thread census with real threads (responsiveness is not judged in real time)."""
    A = _common_setup(seed, p=0.15)
    from vf.props import iters as I
    h = I.IterHarness(A, execute=execute)
    chk = I.C16()
    chk.h = h
    stats = collections.Counter()
    viols = []
    rng0 = random.Random(seed)
    for i in range(n):
        rng = random.Random(rng0.randrange(1 << 60))
        scen = I.gen(rng)
        scen['pd'] = min(scen['pd'], 5 * I.TICK)
        scen['cd'] = min(scen['cd'], 5 * I.TICK)
        r = h.run(scen, None)
        stats['real_executions'] += 1
        if r.verdict == 'watchdog':
            stats['real_watchdog_inconclusive'] += 1
            break
        if r.thread_errors:
            viols.append({'sig': 'B:harness-thread-error', 'what': repr(r.thread_errors[:2]), 'detail': {}})
            continue
        res = chk.judge(scen, r, None, real=True)
        stats.update(res.stats)
        for vv in res.violations:
            viols.append(vv)
    stats['real_injected_yields'] = _injected[0]
    print(json.dumps({'stats': dict(stats), 'violations': viols[:5], 'nviol': len(viols)}, default=repr))
    sys.stdout.flush()
    import os
    os._exit(0)


if __name__ == '__main__':
    {'cache': run_cache, 'buffer': run_buffer, 'ensure': run_ensure, 'iters': run_iters}[sys.argv[1]](
        sys.argv[2], int(sys.argv[3]), int(sys.argv[4]))
