#!/bin/bash
# usage: tools/process_round.sh C19 C20 ...   (confirms and checks every /tmp/seed/<id>/_seeded/*)
cd "$(dirname "$0")/.."
for id in "$@"; do
  for d in /tmp/seed/$id/_seeded/*/; do
    python3 tools/seeded.py $d 2>&1 | python3 -c "
import sys,json
try:
    d=json.loads(sys.stdin.read()); print(d['dir'].split('/')[-1], '|', d['status'], '|', d['suite'], '| caught_by', d['caught_by'], '|', {k:(v[0],[s.split(':')[1] for s in v[1]],[x[:100] for x in v[2]]) for k,v in (d.get('checks') or {}).items()})
except Exception as e: print('TOOL ERROR', '$d', e)"
  done
done
