"""C01 / C05 / C06 - threadsafe_async_cache under SimRT (Engine A).

The wrapped coroutine function, every caller, every life-cycle script and
every cancellation are the harness's; all of them write to one totally
ordered event log which the three oracles below judge.
"""
from __future__ import annotations

import asyncio as aio
import collections
import contextvars
import linecache
import random
from collections.abc import MutableMapping

from vf import simrt
from vf.core import Check, CaseResult, HarnessError, HarnessSignal, U, EPS

SAFETY = 60.0
D0 = 16 * U

cid_var = contextvars.ContextVar('cid', default=None)


class HarnessRefusal(ValueError):
    """the caller-supplied mapping declines to store a value (too large, say)"""


class RecordingMapping(MutableMapping):
    def __init__(self, emit, refuse=()):
        self.d = {}
        self.emit = emit
        self.refuse = set(refuse)       # ordinal numbers of the stores this mapping refuses
        self.nset = 0

    def __getitem__(self, k):
        return self.d[k]

    def __setitem__(self, k, v):
        self.nset += 1
        if self.nset in self.refuse:
            self.emit('cache_refused', repr(k), repr(v))
            raise HarnessRefusal(v[1] if isinstance(v, tuple) and len(v) == 2 else None)
        self.emit('cache_set', repr(k), repr(v))
        self.d[k] = v

    def __delitem__(self, k):
        self.emit('cache_del', repr(k))
        del self.d[k]

    def __iter__(self):
        return iter(self.d)

    def __len__(self):
        return len(self.d)


# ---------------------------------------------------------------------------
# scenario generation
# ---------------------------------------------------------------------------

DURS = ['none', 0, D0, 4 * D0]
LIVES = ['runner', 'runner', 'closeonly', 'closeonly', 'noclose', 'destroy', 'inloop']


LONG = 61.0          # a healthy computation that outlasts the 60 s safety timeout of the waiters


def gen_rand(rng, flavour):
    """flavour: 'c01' (no failures, retaining), 'c05', 'c06' (failures, cancels)."""
    nthr = rng.choice([2, 2, 3, 3, 4])
    nkeys = rng.choice([1, 1, 1, 2])
    d = rng.choice(DURS) if rng.random() > 0.06 else LONG
    inv = []
    for i in range(6):
        fail = flavour != 'c01' and i < 4 and rng.random() < (0.3 if flavour == 'c06' else 0.2)
        dur = d if rng.random() < 0.7 else rng.choice(DURS)
        inv.append([dur, fail])
    dnum = d if isinstance(d, float) else 0.0
    offs = [0, 0, dnum, dnum + U, 8 * U, dnum - U if dnum else U]
    threads = []
    spelled = rng.random() < 0.15
    for ti in range(nthr):
        ncall = rng.choice([1, 1, 2, 3])
        callers = []
        for j in range(ncall):
            styles = ['await', 'await', 'task']
            if flavour != 'c01' or rng.random() < 0.3:
                styles += ['timeout', 'waitfor', 'cancel']
            st = rng.choice(styles)
            callers.append({
                'key': rng.randrange(nkeys), 'off': rng.choice(offs), 'style': st,
                'param': rng.choice([U, dnum, dnum + 4 * U, dnum / 2 if dnum else 2 * U, 40 * U]),
            })
            if spelled:
                callers[-1]['spell'] = rng.choice(['int', 'float', 'bool'])
        threads.append({
            'start': rng.choice([0, 0, 0, U, dnum]),
            'callers': callers,
            'life': rng.choice(LIVES),
            'tail': rng.choice([0, 0, 4 * U, dnum + 8 * U]),
            'pause': rng.choice([0, 0, 0, 2 * U, dnum]),
        })
    return domain_dims(rng, flavour, {'inv': inv, 'threads': threads,
                                      'cache': rng.choice(['dict', 'dict', 'rec', 'lru'])})


def domain_dims(rng, flavour, scen):
    """What the wrapped function returns / raises / does when cancelled: None results, failures that are BaseException but
    not Exception, cancellation that takes a while to unwind."""
    if rng.random() < 0.08:
        scen['result'] = 'none'
    if flavour != 'c01' and rng.random() < 0.25:
        scen['fail_class'] = 'signal'
    if rng.random() < 0.15:
        scen['unwind'] = rng.choice([D0, 4 * D0])
    if flavour != 'c01' and scen['cache'] == 'rec' and scen.get('result') != 'none' and rng.random() < 0.4:
        scen['refuse'] = sorted({rng.randint(1, 3) for _ in range(rng.randint(1, 2))})
    if flavour != 'c01' and rng.random() < 0.12:
        scen['spawn'] = rng.choice(['now', U, D0 / 2])
    if rng.random() < 0.2:
        # the wrapped callable is an ordinary function that returns an awaitable (a thin `def` around an `async def`,
        # a functools.partial of one); in 'plain_syncraise' its scripted failures are raised before any awaitable exists
        # (argument validation): an invocation that started and ended in the same instant
        scen['fnkind'] = rng.choice(['plain', 'plain_syncraise', 'partial'] if flavour != 'c01' else ['plain', 'partial'])
    return scen


def gen_takeover(rng, flavour):
    """Loop A leaves its computation pending and stops; B takes over; A is shut
    down / destroyed at a grid instant while B computes; C, D arrive around it."""
    bd = rng.choice([8 * D0, 4 * D0])
    t_shut = rng.choice([bd / 4, bd / 2, bd / 2 + U, bd - U, bd, bd + U, bd + 4 * D0])
    around = [t_shut - U, t_shut, t_shut + U, t_shut + 2 * U, bd, bd + U, 0, U]
    fail_b = flavour != 'c01' and rng.random() < 0.25
    inv = [[8 * D0, False], [bd, fail_b]] + [[rng.choice(DURS), False] for _ in range(4)]
    a_life = rng.choice(['runner', 'runner', 'destroy', 'closeonly', 'noclose'])
    threads = [{
        'start': 0, 'callers': [{'key': 0, 'off': 0, 'style': 'task', 'param': 0}],
        'life': a_life, 'tail': 0, 'pause': 2 * U + t_shut,
    }, {
        'start': 2 * U, 'callers': [{'key': 0, 'off': 0, 'style': 'await', 'param': 0}],
        'life': rng.choice(['runner', 'noclose']), 'tail': rng.choice([0, 4 * U]), 'pause': 0,
    }]
    for _ in range(rng.choice([1, 2, 2])):
        st = 'await'
        if flavour != 'c01' and rng.random() < 0.3:
            st = rng.choice(['timeout', 'cancel', 'waitfor'])
        threads.append({
            'start': 2 * U + rng.choice(around),
            'callers': [{'key': 0, 'off': 0, 'style': st, 'param': rng.choice([U, bd / 2, bd])}
                        for _ in range(rng.choice([1, 1, 2]))],
            'life': rng.choice(['runner', 'noclose']), 'tail': 0, 'pause': 0,
        })
    return domain_dims(rng, flavour, {'inv': inv, 'threads': threads, 'cache': rng.choice(['dict', 'rec'])})


def gen_small(rng, flavour, dur):
    """2 threads x 1 caller (stall / lifecycle sweeps are applied to this)."""
    inv = [[dur, False]] * 6
    if flavour != 'c01' and rng.random() < 0.3:
        inv = [[dur, True]] + inv[1:]
    ncall = rng.choice([1, 1, 2])
    threads = [{'start': 0, 'callers': [{'key': 0, 'off': 0, 'style': 'await', 'param': 0}
                                        for _ in range(ncall)],
                'life': 'runner', 'tail': 0, 'pause': 0},
               {'start': rng.choice([0, 0, U]),
                'callers': [{'key': 0, 'off': 0, 'style': 'await', 'param': 0}
                            for _ in range(ncall)],
                'life': 'runner', 'tail': 0, 'pause': 0}]
    return domain_dims(rng, flavour, {'inv': inv, 'threads': threads, 'cache': 'dict'})


def make_strategy(rng, spec=None):
    if spec is not None:
        return simrt.Strategy(seed=rng.randrange(1 << 30), **spec)
    k = rng.random()
    if k < 0.75:
        return simrt.Strategy('random', rng.choice([0.05, 0.2, 0.5]), seed=rng.randrange(1 << 30))
    return simrt.Strategy('pct', d=3, span=rng.choice([200, 600, 1500]), seed=rng.randrange(1 << 30))


# ---------------------------------------------------------------------------
# execution
# ---------------------------------------------------------------------------

class CacheHarness:
    def __init__(self, A, execute=None):
        self.A = A
        self.execute = execute or simrt.execute      # Engine B passes its own

    def run(self, scen, strategy, inject=None, max_steps=60000, delays=None, gc_at=None):
        """inject: None or dict(thread=name, k=int, then='leave'|'close'|'runner')"""
        A = self.A
        box = {}

        def main(s):
            log = s.log

            def emit(*ev):
                if not s.dead:
                    log.append(ev + (s.now,))

            ninv = [0]
            if scen['cache'] == 'rec':
                cache = RecordingMapping(emit, scen.get('refuse', ()))
            elif scen['cache'] == 'lru':
                try:
                    from lru import LRU
                    cache = LRU(64)
                except Exception:
                    cache = {}
            else:
                cache = {}
            box['cache'] = cache
            invs = scen['inv']

            async def f(key):
                ninv[0] += 1
                n = ninv[0]
                lp = aio.get_running_loop()
                emit('istart', n, key, lp.sim_name, cid_var.get())
                if hasattr(s, 'inv_begin'):          # Engine B: online overlap monitor
                    s.inv_begin(key, n, lp)
                dur, fail = invs[min(n - 1, len(invs) - 1)]
                if scen.get('spawn') and n <= 2:
                    # the wrapped function starts a helper it does not wait for; the helper asks the cache for the same key
                    parent = cid_var.get()

                    async def helper(hid=f'{parent}.h{n}', delay=scen['spawn']):
                        if delay != 'now':
                            await aio.sleep(delay)
                        cid_var.set(hid)
                        emit('call', hid, key, lp.sim_name)
                        try:
                            r = await cf(key)
                            emit('ret', hid, 'ok', r)
                        except (HarnessError, HarnessSignal) as e:
                            emit('ret', hid, 'exc', 'HarnessError', e.args[0])
                        except HarnessRefusal as e:
                            emit('ret', hid, 'exc', 'HarnessError' if e.args[0] is not None else 'HarnessRefusal', e.args[0])
                        except aio.CancelledError:
                            emit('ret', hid, 'cancelled', aio.current_task().cancelling() > 0)
                            raise
                        except GeneratorExit:
                            raise
                        except BaseException as e:      # noqa - classify, never hide
                            emit('ret', hid, 'exc', type(e).__name__, repr(e)[:200])
                    box.setdefault('helpers', []).append(aio.ensure_future(helper()))
                try:
                    if dur == 'none':
                        pass
                    else:
                        await aio.sleep(dur)
                    if fail:
                        raise (HarnessSignal if scen.get('fail_class') == 'signal' else HarnessError)(n)
                except (HarnessError, HarnessSignal):
                    emit('iend', n, 'raise')
                    raise
                except aio.CancelledError:
                    if scen.get('unwind'):
                        # cleaning up takes a while (closing a connection, say): the invocation is in progress until then
                        emit('unwinding', n)
                        try:
                            await aio.sleep(scen['unwind'])
                        except aio.CancelledError:
                            pass
                    emit('iend', n, 'cancel')
                    raise
                except GeneratorExit:
                    emit('iend', n, 'gexit')
                    raise
                finally:
                    if hasattr(s, 'inv_end'):
                        s.inv_end(n)
                emit('iend', n, 'ok')
                return None if scen.get('result') == 'none' else (key, n)

            fnkind = scen.get('fnkind', 'async')
            f_async = f
            if fnkind == 'partial':
                import functools

                async def f_extra(tag, key):
                    return await f_async(key)
                f = functools.partial(f_extra, 'tag')
            elif fnkind in ('plain', 'plain_syncraise'):
                def f(key):       # noqa: F811
                    if fnkind == 'plain_syncraise':
                        dur, fail = invs[min(ninv[0], len(invs) - 1)]
                        if fail:
                            ninv[0] += 1
                            n = ninv[0]
                            lp = aio.get_running_loop()
                            emit('istart', n, key, lp.sim_name, cid_var.get())
                            if hasattr(s, 'inv_begin'):
                                s.inv_begin(key, n, lp)
                            if hasattr(s, 'inv_end'):
                                s.inv_end(n)
                            emit('iend', n, 'raise')
                            raise (HarnessSignal if scen.get('fail_class') == 'signal' else HarnessError)(n)
                    return f_async(key)
            cf = A.threadsafe_async_cache(f, cache=cache) if scen['cache'] != 'dict' \
                else A.threadsafe_async_cache(f)
            box['cf'] = cf

            def thread_body(ti, spec):
                name = f'T{ti}'

                def body():
                    if spec['start']:
                        s.sleep(spec['start'])
                    loop = aio.new_event_loop()
                    lname = loop.sim_name
                    loop.on_stop = lambda lp: emit('lstop', lname)
                    aio.set_event_loop(loop)
                    emit('lstart', lname, name)
                    tasks = []

                    async def caller(j, c):
                        cid = f'{name}.{j}'
                        if c['off']:
                            await aio.sleep(c['off'])
                        cid_var.set(cid)
                        me = aio.current_task()
                        emit('call', cid, c['key'], lname)
                        try:
                            # the same argument spelled as an equal object of another type (1, 1.0, True): one key
                            kk = c['key']
                            sp = c.get('spell')
                            kk = float(kk) if sp == 'float' else bool(kk) if sp == 'bool' and kk in (0, 1) else kk
                            if c['style'] == 'timeout':
                                async with aio.timeout(c['param']):
                                    r = await cf(kk)
                            elif c['style'] == 'waitfor':
                                r = await aio.wait_for(cf(kk), c['param'])
                            else:
                                r = await cf(kk)
                            emit('ret', cid, 'ok', r)
                        except (HarnessError, HarnessSignal) as e:
                            emit('ret', cid, 'exc', 'HarnessError', e.args[0])
                        except HarnessRefusal as e:
                            # the mapping's refusal reaches the caller whose computation produced the value
                            emit('ret', cid, 'exc', 'HarnessError' if e.args[0] is not None else 'HarnessRefusal', e.args[0])
                        except TimeoutError:
                            emit('ret', cid, 'timeout', None)
                        except aio.CancelledError:
                            emit('ret', cid, 'cancelled', me.cancelling() > 0)
                            raise
                        except GeneratorExit:
                            raise
                        except BaseException as e:      # noqa - classify, never hide
                            emit('ret', cid, 'exc', type(e).__name__, repr(e)[:200])

                    async def main_coro():
                        for j, c in enumerate(spec['callers']):
                            t = aio.ensure_future(caller(j, c))
                            tasks.append(t)
                            if c['style'] == 'cancel':
                                def do_cancel(t=t, j=j):
                                    if not t.done():
                                        emit('cancel_req', f'{name}.{j}')
                                        t.cancel()
                                loop.call_later(c['off'] + c['param'], do_cancel)
                        awaited = [t for t, c in zip(tasks, spec['callers']) if c['style'] != 'task']
                        if awaited:
                            await aio.gather(*awaited, return_exceptions=True)
                        if spec['tail']:
                            await aio.sleep(spec['tail'])
                        if spec['life'] == 'inloop':
                            # a supervisor-style shutdown from inside: everything else is cancelled and awaited while the
                            # loop keeps running (it never stops with something pending)
                            ts = [t for t in aio.all_tasks(loop) if t is not aio.current_task()]
                            emit('cancel_all_inside', lname, len(ts))
                            for t in ts:
                                t.cancel()
                            if ts:
                                await aio.gather(*ts, return_exceptions=True)

                    life = spec['life']
                    try:
                        loop.run_until_complete(main_coro())
                    except RuntimeError as e:
                        if inject is not None and 'stopped before' in str(e):
                            emit('injected_stop', lname)
                            life = {'leave': 'noclose', 'close': 'closeonly',
                                    'runner': 'runner'}[inject['then']]
                        else:
                            raise
                    if spec['pause']:
                        s.sleep(spec['pause'])
                    if life == 'noclose':
                        return
                    if life == 'inloop':
                        life = 'runner'
                    if life == 'resume':
                        # the loop is simply run again later (a GUI / REPL style owner): what it left pending goes on
                        pend = [t for t in tasks if not t.done()]
                        emit('lresume', lname, len(pend))
                        if pend:
                            loop.run_until_complete(aio.gather(*pend, return_exceptions=True))
                        life = 'runner'
                    if life == 'runner':
                        s.yield_point('pre-cancel')
                        ts = aio.all_tasks(loop)
                        emit('cancel_all', lname, len(ts))
                        for t in ts:
                            t.cancel()
                        if ts:
                            loop.run_until_complete(aio.gather(*ts, return_exceptions=True))
                    elif life == 'destroy':
                        # what garbage collection of the abandoned loop would do
                        emit('destroy', lname)
                        for t in list(aio.all_tasks(loop)):
                            co = t.get_coro()
                            try:
                                co.close()
                            except RuntimeError:
                                pass
                        return
                    emit('lclose', lname)
                    loop.close()
                    if life == 'closeonly':
                        # closed without cancelling: the pending tasks are garbage from here on and are finalised
                        # whenever the collector next runs, in whichever thread that happens
                        tasks.clear()
                        aio.set_event_loop(None)
                return body

            ths = [s.spawn(thread_body(ti, spec), f'T{ti}') for ti, spec in enumerate(scen['threads'])]
            if scen.get('epilogue'):
                # when every thread is done: the owner of the mapping evicts everything, then each key is
                # requested once more from a fresh loop - the mapping being the only store, each must be recomputed
                s.block(lambda: all(t.st == simrt.DONE for t in ths), None, 'epilogue-join')
                keys = sorted({c['key'] for t in scen['threads'] for c in t['callers']})
                had = {k for k in keys if any(kk[0] == (k,) for kk in list(cache))}
                if scen['epilogue'] == 'hit_first':
                    # nothing has been evicted so far: every key somebody already received a value for is requested
                    # once more before the eviction
                    def pre_epi():
                        loop = aio.new_event_loop()
                        aio.set_event_loop(loop)

                        async def once():
                            for k in keys:
                                cid_var.set(f'P.{k}')
                                emit('call', f'P.{k}', k, loop.sim_name)
                                try:
                                    r = await cf(k)
                                    emit('ret', f'P.{k}', 'ok', r)
                                except (HarnessError, HarnessSignal) as e:
                                    emit('ret', f'P.{k}', 'exc', 'HarnessError', e.args[0])
                                except BaseException as e:      # noqa
                                    emit('ret', f'P.{k}', 'exc', type(e).__name__, repr(e)[:100])
                        loop.run_until_complete(once())
                        loop.close()
                    pe = s.spawn(pre_epi, 'P')
                    s.block(lambda: pe.st == simrt.DONE, None, 'epilogue-join0')
                    had = {k for k in keys if any(kk[0] == (k,) for kk in list(cache))}
                emit('evict_all', sorted(had))
                for kk in list(cache):
                    del cache[kk]

                def epi():
                    loop = aio.new_event_loop()
                    aio.set_event_loop(loop)

                    async def again():
                        for k in keys:
                            cid_var.set(f'E.{k}')
                            emit('ecall', k)
                            try:
                                r = await cf(k)
                                emit('eret', k, 'ok', r)
                            except (HarnessError, HarnessSignal) as e:       # the fresh computation itself was scripted to fail
                                emit('eret', k, 'own_failure', e.args[0])
                            except BaseException as e:      # noqa
                                emit('eret', k, 'exc', repr(e)[:100])
                    loop.run_until_complete(again())
                    loop.close()
                e = s.spawn(epi, 'E')
                s.block(lambda: e.st == simrt.DONE, None, 'epilogue-join2')

        def pre(s):
            if delays and hasattr(s, 'line_delays'):
                s.line_delays = [dict(d) for d in delays]
            if gc_at is not None and hasattr(s, 'at'):
                def collect():
                    import gc
                    s.log.append(('gc', gc_at['thread'], gc_at['k'], s.now))
                    n = gc.collect()
                    s.log.append(('gc_done', n, s.now))
                s.at(gc_at['thread'], gc_at['k'], collect)
            if inject is not None:
                def stopper():
                    try:
                        lp = aio.get_running_loop()
                    except RuntimeError:
                        return
                    s.log.append(('inject', inject['thread'], inject['k'], s.now))
                    lp.stop()
                s.at(inject['thread'], inject['k'], stopper)

        r = self.execute(main, strategy, max_steps=max_steps, watchdog=60.0, pre=pre)
        r.cache = box.get('cache')
        return r


# ---------------------------------------------------------------------------
# oracles
# ---------------------------------------------------------------------------

class View:
    """Indexes over one event log."""

    def __init__(self, log, none_result=False):
        self.log = log
        self.none_result = none_result
        self.inv = {}          # n -> dict(start seq, t0, key, loop, cid, end seq, t1, kind)
        self.calls = {}        # cid -> dict
        self.stops = collections.defaultdict(list)   # loop -> [(seq, t)]
        self.closes = collections.defaultdict(list)
        self.deaths = []       # (t, loop, kind)
        self.cancel_reqs = set()
        for seq, e in enumerate(log):
            k = e[0]
            if k == 'istart':
                self.inv[e[1]] = {'n': e[1], 's0': seq, 't0': e[-1], 'key': e[2], 'loop': e[3],
                                  'cid': e[4], 's1': None, 't1': None, 'kind': None}
            elif k == 'iend':
                d = self.inv[e[1]]
                d['s1'], d['t1'], d['kind'] = seq, e[-1], e[2]
            elif k == 'call':
                self.calls[e[1]] = {'cid': e[1], 'key': e[2], 'loop': e[3], 's0': seq, 't0': e[-1],
                                    's1': None, 't1': None, 'kind': None, 'detail': None}
            elif k == 'ret':
                c = self.calls[e[1]]
                # whatever an abandoned caller 'returns' while it is being finalised (its loop was closed or its
                # coroutine destroyed: GeneratorExit, or an error of the clean-up itself) is not a caller outcome
                if self.closes.get(c['loop']):
                    c['abandoned'] = True
                    continue
                if c['s1'] is None:
                    c['s1'], c['t1'], c['kind'], c['detail'] = seq, e[-1], e[2], e[3]
            elif k == 'lstop':
                self.stops[e[1]].append((seq, e[-1]))
                self.deaths.append((e[-1], e[1], 'stop'))
            elif k in ('lclose', 'destroy'):
                self.closes[e[1]].append((seq, e[-1]))
                self.deaths.append((e[-1], e[1], k))
            elif k == 'cancel_req':
                self.cancel_reqs.add(e[1])
        if none_result:
            # the wrapped function returns None: a caller's None is attributed to the first successful invocation of its
            # key that had ended by then (values cannot tell invocations apart; the invocation counts are judged as ever)
            for c in self.calls.values():
                if c['kind'] == 'ok' and c['detail'] is None:
                    oks = sorted(n for n, d in self.inv.items() if d['key'] == c['key'] and d['kind'] == 'ok' and d['s1'] < c['s1'])
                    c['detail'] = (c['key'], oks[0]) if oks else None

    def first_stop_after(self, loop, seq):
        for s, t in self.stops.get(loop, ()):
            if s > seq:
                return s, t
        return None

    def inv_live_end(self, d):
        """(seq, t) at which the invocation stops being 'in progress on a running loop'."""
        st = self.first_stop_after(d['loop'], d['s0'])
        cands = []
        if d['s1'] is not None:
            cands.append((d['s1'], d['t1']))
        if st is not None:
            cands.append(st)
        return min(cands) if cands else (None, None)


def judge_c01(v: View, res: CaseResult, retaining=True, overlap=True):
    first_ok = {}
    for n in sorted(v.inv):
        d = v.inv[n]
        key = d['key']
        # overlap: another invocation of this key in progress on a running loop
        # (Engine B decides this clause online instead: there the log cannot order
        # 'loop stopped' and a take-over atomically)
        for m, o in v.inv.items():
            if not overlap or m == n or o['key'] != key or o['s0'] > d['s0']:
                continue
            end_seq, _ = v.inv_live_end(o)
            if end_seq is None or end_seq > d['s0']:
                res.violate('C01:overlap', 'two invocations of one key in progress on running loops',
                            first=o, second=d)
        if retaining and key in first_ok and first_ok[key]['s1'] < d['s0']:
            res.violate('C01:reinvoke-after-success',
                        'wrapped function invoked again after a successful invocation', inv=d,
                        ok=first_ok[key])
        if d['kind'] == 'ok' and key not in first_ok:
            first_ok[key] = d
    # stopped-loop take-overs seen (for the path counter)
    for n, d in v.inv.items():
        for m, o in v.inv.items():
            if m != n and o['key'] == d['key'] and o['s0'] < d['s0']:
                if o['s1'] is None or o['s1'] > d['s0']:
                    st = v.first_stop_after(o['loop'], o['s0'])
                    if st is not None and st[0] < d['s0']:
                        res.stats['path_takeover'] += 1
                        break
    for c in v.calls.values():
        if c['kind'] == 'ok':
            val = c['detail']
            fo = first_ok.get(c['key'])
            if retaining and (fo is None or not well_formed(val) or tuple(val) != (c['key'], fo['n'])):
                res.violate('C01:wrong-result', 'caller got a value other than the one successful result',
                            caller=c, first_ok=fo)


def well_formed(val):
    """values produced by the harness function are (key, invocation number)"""
    return isinstance(val, tuple) and len(val) == 2 and isinstance(val[1], int)


def classify_waits(v: View, res: CaseResult):
    for c in v.calls.values():
        if c['kind'] != 'ok' or not well_formed(c['detail']):
            continue
        n = c['detail'][1]
        d = v.inv.get(n)
        if d is None or d['cid'] == c['cid']:
            continue
        if d['s1'] is not None and c['s0'] < d['s1']:
            if d['loop'] != c['loop']:
                res.stats['path_cross_loop_wait'] += 1
            else:
                res.stats['path_same_loop_wait'] += 1


def judge_c06(v: View, res: CaseResult, cache, scen):
    own_inv = collections.defaultdict(set)
    for n, d in v.inv.items():
        own_inv[d['cid']].add(n)
    ok_vals = {(d['key'], n) for n, d in v.inv.items() if d['kind'] == 'ok'}
    for c in v.calls.values():
        k = c['kind']
        if k == 'exc':
            typ = c['detail']
            ev = v.log[c['s1']]
            if typ != 'HarnessError':
                res.violate(f'C06:foreign-exc:{typ}', f'caller received {typ} (not raised by the wrapped function)',
                            caller=c, exc=ev[4])
            elif ev[4] not in own_inv[c['cid']]:
                res.violate('C06:others-failure', 'caller received the exception of an invocation it did not perform',
                            caller=c, inv=ev[4])
            else:
                res.stats['own_failure'] += 1
        elif k == 'cancelled':
            if not c['detail']:
                res.violate('C06:foreign-cancel',
                            'caller got CancelledError although its own task was never cancelled',
                            caller=c, deaths=v.deaths)
            else:
                res.stats['own_cancel'] += 1
        elif k == 'timeout':
            res.stats['own_timeout'] += 1
        elif k == 'ok':
            if not well_formed(c['detail']) or tuple(c['detail']) not in ok_vals:
                res.violate('C06:value-not-from-success', 'caller returned something no successful invocation produced',
                            caller=c)
                continue
            n = c['detail'][1]
            if any(o['kind'] in ('raise', 'cancel') and o['key'] == c['key'] and o['s1'] is not None
                   and o['s1'] < (v.inv[n]['s0'] if n in v.inv else -1) for o in v.inv.values()):
                res.stats['recompute_after_failure'] += 1
    # a failed or cancelled computation caches nothing
    if cache is not None and scen['cache'] != 'lru':
        try:
            items = dict(cache.d if isinstance(cache, RecordingMapping) else cache)
        except Exception:
            items = {}
        for key, val in items.items():
            k = key[0][0]
            if val is None and scen.get('result') == 'none':
                if not any(kk == k for kk, _ in ok_vals):
                    res.violate('C06:cached-without-success', 'cache holds an entry for a key no invocation succeeded for', key=repr(key))
                continue
            if not well_formed(val) or tuple(val) not in ok_vals or val[0] != k:
                res.violate('C06:cached-without-success', 'cache holds a value no successful invocation produced',
                            key=repr(key), value=repr(val))


def judge_c05_termination(v: View, res: CaseResult, r):
    if r.verdict in ('deadlock', 'stepbound', 'timebound'):
        pending = [c for c in v.calls.values() if c['s1'] is None]
        sig = 'C05:' + ('spins' if r.verdict == 'stepbound' else 'never-returns')
        res.violate(sig, f'execution ended in {r.verdict} with {len(pending)} caller(s) pending',
                    pending=pending, blocked=r.blocked)


def judge_c05_prompt(v: View, res: CaseResult, tag='C05'):
    # in-progress intervals per key
    busy = collections.defaultdict(list)
    for d in v.inv.values():
        _, t_end = v.inv_live_end(d)
        if d['s1'] is not None and d['kind'] != 'gexit':
            # it did end by itself (perhaps during a later run of its loop - the shutdown phase - after unwinding for a
            # while): until then a waiter that found its loop running was waiting for something that was in progress
            t_end = d['t1']
        busy[d['key']].append((d['t0'], t_end if t_end is not None else float('inf')))
    for c in v.calls.values():
        t0 = c['t0']
        own = v.first_stop_after(c['loop'], c['s0'])
        t1 = c['t1'] if c['t1'] is not None else float('inf')
        if own is not None:
            t1 = min(t1, own[1])
        if t1 == float('inf'):
            continue            # no outcome: termination clause
        if t1 - t0 <= EPS:
            continue
        # subtract busy intervals
        gaps = [(t0, t1)]
        # an injected preemption of any thread is the harness's doing, not waiting caused by the cache
        for a, b in busy[c['key']] + list(getattr(v, 'delays', ())):
            ng = []
            for g0, g1 in gaps:
                if b <= g0 or a >= g1:
                    ng.append((g0, g1))
                else:
                    if a > g0:
                        ng.append((g0, a))
                    if b < g1:
                        ng.append((b, g1))
            gaps = ng
        for g0, g1 in gaps:
            if g1 - g0 <= EPS:
                continue
            res.stats['idle_waits_judged'] += 1
            # the safety net bounds one wait by 60 s from the moment the waiter began it, which is no earlier
            # than the start of the idle interval: allowed iff it is no longer than 60 s and a loop died before it *while
            # this caller was already waiting* (a caller that arrives after the death sees that the loop is gone and takes
            # over at once; it never needs the safety net)
            excused = (g1 - g0) <= SAFETY + EPS and any(lp != c['loop'] and t0 - EPS <= d <= g0 + EPS for d, lp, _ in v.deaths)
            if excused:
                res.stats['allowed_safety_net_stall'] += 1
            else:
                res.violate(f'{tag}:idle-wait',
                            'caller kept waiting although nothing was being computed and no loop died',
                            caller=c, idle=[g0, g1], deaths=v.deaths)


def count_endings(v: View, res: CaseResult):
    """C05 non-trivial rule: a waiter actually waited on a computation that then ended."""
    for c in v.calls.values():
        for d in v.inv.values():
            if d['key'] != c['key'] or d['cid'] == c['cid']:
                continue
            end_seq, _ = v.inv_live_end(d)
            if end_seq is None or c['s1'] is None:
                continue
            if d['s0'] < c['s1'] and c['s0'] < end_seq < c['s1']:
                kind = d['kind'] if d['s1'] == end_seq else 'loopdeath'
                res.stats[f'waited_until_{kind}'] += 1
                break


# ---------------------------------------------------------------------------
# checks
# ---------------------------------------------------------------------------

def _reprobe_line(A):
    try:
        co = None
        for c in simrt.module_code_objects(A):
            if c.co_qualname == 'threadsafe_async_cache.<locals>._wrapper':
                co = c
        if co is None:
            return None
        lines = sorted({l for _, _, l in co.co_lines() if l})
        hits = [l for l in lines if 'return _cache[key]' in linecache.getline(co.co_filename, l)]
        if len(hits) != 2:
            return None
        exc = [l for l in lines if l > hits[1] and linecache.getline(co.co_filename, l).strip().startswith('except')]
        return (hits[1], exc[0]) if exc else None
    except Exception:
        return None


class CacheCheck(Check):
    anchors = ('threadsafe_async_cache',)
    assumptions = [
        'Engine A (SimRT): interleavings at source-line granularity of aiuti/asyncio.py plus loop-iteration '
        'and primitive boundaries; switches inside stdlib calls are not explored',
        'sim Lock / event loop select / clock replace the blocking primitives; stock asyncio otherwise',
        'sampled schedules and scenarios, not all; loops are never restarted except by the shutdown step',
        'Python 3.12 only',
    ]

    def __init__(self, pid):
        self.pid = pid
        self.flavour = {'C01': 'c01', 'C05': 'c05', 'C06': 'c06'}[pid]

    def setup(self):
        import aiuti.asyncio as A
        simrt.prepare([A])
        self.A = A
        self.h = CacheHarness(A)
        self.reprobe = _reprobe_line(A)

    # sizes: (n_rand, n_takeover, n_small_random, sweep stride)
    SIZES = {
        'quick': {'rand': 52000, 'take': 13000, 'small': 12000, 'sweep': 3000, 'real': 48, 'many': 24},
        'thorough': {'rand': 1400000, 'take': 300000, 'small': 200000, 'sweep': 60000, 'real': 1200, 'many': 600},
    }
    budget = {'quick': 45.0, 'thorough': 780.0}

    def cases(self, tier, seed):
        sz = self.SIZES[tier]
        i = 0
        # interleave families so that a time-truncated run still covers all of them
        fams = [('rand', sz['rand']), ('take', sz['take']), ('small', sz['small']),
                ('sweep', sz['sweep'])]
        if self.pid in ('C01', 'C06'):
            fams.append(('real', sz['real']))
        if self.pid in ('C01', 'C05'):
            fams.append(('many', sz['many']))
        total = sum(n for _, n in fams)
        left = dict(fams)
        rng = random.Random(seed * 7919 + 13)
        order = []
        for fam, n in fams:
            order.extend([fam] * n)
        rng.shuffle(order)
        for fam in order:
            yield {'fam': fam, 'seed': (seed << 32) + i}
            i += 1
        # complete sweep of one injected event over every yield point of the deterministic base schedule of the
        # 2-thread scenarios: a stall of the thread at its k-th yield point (C01) resp. loop.stop() at it (C05, C06)
        for di in range(len(DURS)):
            for ncall in (1, 2):
                for th in ('T0', 'T1'):
                    for k in range(1, 200):
                        if self.pid == 'C01':
                            yield {'fam': 'fullsweep', 'dur': di, 'ncall': ncall, 'thread': th, 'k': k, 'then': None}
                        else:
                            for then in ('leave', 'close', 'runner'):
                                yield {'fam': 'fullsweep', 'dur': di, 'ncall': ncall, 'thread': th, 'k': k, 'then': then}

    def build(self, case):
        if case['fam'] == 'fullsweep':
            dur = DURS[case['dur']]
            inv = [[dur, False]] * 6
            cal = [{'key': 0, 'off': 0, 'style': 'await', 'param': 0} for _ in range(case['ncall'])]
            scen = {'inv': inv, 'cache': 'dict',
                    'threads': [{'start': 0, 'callers': cal, 'life': 'runner', 'tail': 0, 'pause': 0},
                                {'start': 0, 'callers': [dict(c) for c in cal], 'life': 'runner', 'tail': 0, 'pause': 0}]}
            self._delays = None
            self._gc_at = None
            if case['then'] is None:
                return scen, simrt.Strategy('stall', p=0.0, thread=case['thread'], k=case['k'], seed=case['k']), None
            return scen, simrt.Strategy('none'), {'thread': case['thread'], 'k': case['k'], 'then': case['then']}
        rng = random.Random(case['seed'])
        fam = case['fam']
        inject = None
        if fam == 'rand':
            scen = gen_rand(rng, self.flavour)
            strat = make_strategy(rng)
            if self.flavour != 'c01' and rng.random() < 0.15:
                inject = {'thread': f'T{rng.randrange(len(scen["threads"]))}',
                          'k': rng.randrange(5, 400), 'then': rng.choice(['leave', 'close', 'runner'])}
        elif fam == 'take':
            scen = gen_takeover(rng, self.flavour)
            strat = make_strategy(rng)
        elif fam == 'small':
            scen = gen_small(rng, self.flavour, rng.choice(DURS))
            strat = make_strategy(rng)
        elif fam == 'many':
            # hundreds of distinct keys in progress at once on one loop; callers on another loop then ask for the oldest,
            # a middle and the newest of them (and for one nobody asked for yet)
            n = rng.choice([130, 260, 300, 520])
            dur = rng.choice([D0, 4 * D0])
            t0 = {'start': 0, 'life': 'runner', 'tail': 0, 'pause': 0,
                  'callers': [{'key': k, 'off': 0, 'style': 'await', 'param': 0} for k in range(n)]}
            t1 = {'start': rng.choice([U, dur / 2]), 'life': 'runner', 'tail': 0, 'pause': 0,
                  'callers': [{'key': k, 'off': 0, 'style': 'await', 'param': 0} for k in (0, n // 2, n - 1, n)]}
            scen = {'inv': [[dur, False]], 'threads': [t0, t1], 'cache': rng.choice(['dict', 'rec'])}
            strat = simrt.Strategy('none') if rng.random() < 0.5 else simrt.Strategy('random', 0.02, seed=rng.randrange(1 << 30))
            self._delays = None
            self._gc_at = None
            return scen, strat, None
        else:   # sweep
            scen = gen_small(rng, self.flavour, rng.choice(DURS))
            k = rng.randrange(1, 260)
            if self.flavour == 'c01' or rng.random() < 0.4:
                strat = simrt.Strategy('stall', p=rng.choice([0.0, 0.1]), thread=rng.choice(['T0', 'T1']),
                                       k=k, seed=rng.randrange(1 << 30))
            else:
                strat = make_strategy(rng)
                inject = {'thread': rng.choice(['T0', 'T1']), 'k': k,
                          'then': rng.choice(['leave', 'close', 'runner'])}
        self._delays = None
        if fam != 'sweep' and rng.random() < 0.2:
            # a long preemption (timed delay) of one loop thread at one source line of the cache wrapper
            dn = [d for d, _ in scen['inv'] if isinstance(d, float)]
            self._delays = [{'thread': f'T{rng.randrange(len(scen["threads"]))}', 'qual': 'threadsafe_async_cache',
                             'nth': rng.randint(1, 70),
                             'd': rng.choice([U, D0, 4 * D0, (dn[0] if dn else D0) + U, 61.0])}]
        self._gc_at = None
        if inject is None and any(t['life'] == 'closeonly' for t in scen['threads']) and rng.random() < 0.5:
            # the garbage collector runs at the k-th yield point of one thread (the cyclic collector is otherwise
            # off during an execution): abandoned computations are finalised there, whatever that thread holds
            self._gc_at = {'thread': f'T{rng.randrange(len(scen["threads"]))}', 'k': rng.randrange(3, 160)}
        return scen, strat, inject

    def run_real(self, case):
        """Engine B: a child process runs a batch of free-running executions with real threads."""
        from vf import engine_b
        return engine_b.batch_case('cache', self.flavour, case['seed'], 25, 'path_cross_loop_wait')

    def run_case(self, case):
        if case['fam'] == 'real':
            return self.run_real(case)
        scen, strat, inject = self.build(case)
        r = self.h.run(scen, strat, inject, delays=self._delays, gc_at=self._gc_at,
                       **({'max_steps': 1500000} if case['fam'] == 'many' else {}))
        res = CaseResult()
        res.sig = r.signature
        res.cov = {k: c for k, c in r.sched.line_cov.items() if k[0].startswith(self.anchors)}
        res.switch_cov = {k for k in r.sched.switch_lines if k[0].startswith(self.anchors)}
        if r.verdict == 'watchdog' or not r.clean:
            res.dirty = True
        if r.verdict == 'watchdog':
            res.inconclusive = 'wall-clock watchdog'
            return res
        if r.thread_errors:
            res.inconclusive = 'harness thread error: ' + repr(r.thread_errors[:2])
            res.sample = {'log': r.log[-30:]}
            return res
        v = View(r.log, none_result=scen.get('result') == 'none')
        st = res.stats
        st['executions'] += 1
        st[f'fam_{case["fam"]}'] += 1
        if case['fam'] == 'many' and len(scen['threads'][0]['callers']) > 256:
            st['more_than_256_keys_in_progress_at_once'] += 1
        for dim in ('result', 'fail_class', 'unwind', 'refuse', 'spawn', 'fnkind'):
            if scen.get(dim):
                st[f'dimension_{dim}' + (f'_{scen[dim]}' if dim in ('result', 'fail_class', 'fnkind') else '')] += 1
        if scen.get('fnkind') == 'plain_syncraise' and any(e[0] == 'iend' and e[2] == 'raise' for e in r.log):
            st['function_raised_before_returning_an_awaitable'] += 1
        st[f'strategy_{strat.kind}'] += 1
        if any(e[0] == 'inject' for e in r.log):
            st['injected_loop_stop'] += 1
        if r.sched.delays_fired:
            st['long_delay_injected'] += 1
        if any(e[0] == 'gc' for e in r.log):
            st['gc_injected'] += 1
            if any(e[0] == 'iend' and e[2] == 'gexit' for e in r.log):
                st['gc_finalised_abandoned_computation'] += 1
        v.delays = [(t0, t0 + d) for _, _, d, t0 in r.sched.delays_fired]
        classify_waits(v, res)
        moved = any(q.endswith('_wrapper') for q, _ in r.sched.switch_lines)
        if self.reprobe:
            q = 'threadsafe_async_cache.<locals>._wrapper'
            lc = r.sched.line_cov
            # the locked re-probe returned a value: its line ran more often than its except clause
            if lc.get((q, self.reprobe[0]), 0) > lc.get((q, self.reprobe[1]), 0):
                st['path_locked_reprobe_hit'] += 1
        # concurrent callers of one key
        conc = False
        cs = sorted(v.calls.values(), key=lambda c: c['s0'])
        for i, a in enumerate(cs):
            for b in cs[i + 1:]:
                if b['key'] == a['key'] and (a['s1'] is None or b['s0'] < a['s1']):
                    conc = True
        if self.pid == 'C01':
            judge_c01(v, res, retaining=True)
            res.nontrivial = conc and moved
        elif self.pid == 'C05':
            judge_c05_termination(v, res, r)
            if r.verdict is None:
                judge_c05_prompt(v, res)
            count_endings(v, res)
            res.nontrivial = any(k.startswith('waited_until_') for k in st)
        else:
            judge_c06(v, res, getattr(r, 'cache', None), scen)
            if r.verdict is None and (v.cancel_reqs or any(c['kind'] in ('timeout', 'cancelled')
                                                           for c in v.calls.values())):
                judge_c05_prompt(v, res, tag='C06')
            if r.verdict in ('deadlock', 'stepbound', 'timebound'):
                st['nonterminating_execution_left_to_C05'] += 1
            res.nontrivial = any(st.get(k) for k in ('own_failure', 'own_cancel', 'own_timeout',
                                                     'recompute_after_failure'))
        if res.nontrivial:
            st['nontrivial'] += 1
        if res.violations or res.nontrivial:
            res.sample = {'scenario': scen, 'strategy': strat.describe(), 'inject': inject,
                          'verdict': r.verdict, 'switches': r.sched.switches[:12],
                          'n_switches': r.switches, 'log': r.log[:80]}
        return res

    def floors(self, tier):
        q = tier == 'quick'
        if self.pid == 'C01':
            f = {'more_than_256_keys_in_progress_at_once': 8 if q else 200,
                 'path_cross_loop_wait': 50 if q else 2000, 'path_takeover': 50 if q else 2000,
                 'nontrivial': 1000 if q else 20000}
            if getattr(self, 'reprobe', None) or True:
                f['path_locked_reprobe_hit'] = 50 if q else 2000
            return f
        if self.pid == 'C05':
            return {'waited_until_ok': 500 if q else 10000, 'waited_until_raise': 30 if q else 600,
                    'waited_until_cancel': 30 if q else 600, 'waited_until_loopdeath': 30 if q else 600,
                    'injected_loop_stop': 100 if q else 2000, 'function_raised_before_returning_an_awaitable': 30 if q else 600}
        return {'function_raised_before_returning_an_awaitable': 30 if q else 600, 'own_failure': 100 if q else 2000, 'own_cancel': 100 if q else 2000,
                'own_timeout': 100 if q else 2000, 'recompute_after_failure': 100 if q else 2000}

    @property
    def rule(self):
        base = ('cases = seeded random scenarios (2-4 threads each with its own SimLoop, 1-3 callers, '
                'grid arrival offsets, caller styles await/task/timeout/wait_for/cancel, life-cycles '
                'runner/close-only/never-closed/destroyed), a directed take-over family, and 2-thread '
                'scenarios under stall / loop-stop injection at a sampled and (fullsweep family) at every yield-point '
                'index of the base schedule, timed delays and garbage collections injected at source lines, and (C01, C06) '
                'batches of free-running real-thread executions (Engine B); value domain: 8 % None results, 25 % (C05, C06) failures that '
                'are BaseException but not Exception, 15 % keys spelled 1 / 1.0 / True per caller, 15 % computations that take a while '
                'to unwind after cancellation, life-cycle with an in-loop shutdown, (C05, C06) recording mappings that refuse a store, '
                'functions that start a helper which asks the cache for the same key; distinct = '
                'distinct (case, sequence of baton moves). ')
        return base + {
            'C01': 'non-trivial = >=2 callers of one key pending at once AND the baton moved inside _wrapper',
            'C05': 'non-trivial = some caller actually waited on a computation that then ended (ok/raise/cancel/loop death)',
            'C06': 'non-trivial = some caller outcome other than value-on-first-try (own failure, own cancel/timeout, recompute after a failure)',
        }[self.pid]


def get_check(pid):
    return CacheCheck(pid)
