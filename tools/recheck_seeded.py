#!/usr/bin/env python3
"""Re-run the checks against every stored seeded change (after the checks themselves changed).

For each /verif/seeded/<name>/: copy /repo to a scratch directory outside /repo and /verif, apply patch.diff, run
the quick check of every property recorded in meta.json's `caught_by` (or the seeded property) with early stop,
record whether it is still caught, delete the copy.   usage: tools/recheck_seeded.py [--only substring] [--seed N]
Writes seeded/RECHECK.json.
"""
import argparse, glob, json, os, shutil, subprocess, sys, tempfile, time

HERE = os.path.dirname(os.path.dirname(os.path.abspath(__file__)))


def resolve_import_conflicts(path):
    import re
    lines = open(path).read().split('\n')
    out, i, ok = [], 0, True
    imp = re.compile(r'^(from (\S+) import (.+)|import .+)$')
    while i < len(lines):
        if lines[i].startswith('<<<<<<< '):
            j = lines.index('=======', i)
            k = next(x for x in range(j, len(lines)) if lines[x].startswith('>>>>>>> '))
            ours, theirs = lines[i + 1:j], lines[j + 1:k]
            if not all(imp.match(l) for l in ours + theirs if l.strip()):
                ok = False
                break
            merged, mods = [], {}
            for l in theirs + ours:
                m = imp.match(l)
                if not l.strip():
                    continue
                if m.group(2):
                    names = [n.strip() for n in m.group(3).split(',')]
                    if m.group(2) in mods:
                        for n in names:
                            if n not in mods[m.group(2)]:
                                mods[m.group(2)].append(n)
                    else:
                        mods[m.group(2)] = names
                        merged.append(('from', m.group(2)))
                elif ('import', l) not in merged:
                    merged.append(('import', l))
            for kind, x in merged:
                out.append(x if kind == 'import' else f"from {x} import {', '.join(mods[x])}")
            i = k + 1
        else:
            out.append(lines[i])
            i += 1
    if ok:
        open(path, 'w').write('\n'.join(out))
    return ok


def main():
    ap = argparse.ArgumentParser()
    ap.add_argument('--only')
    ap.add_argument('--seed', default='0')
    a = ap.parse_args()
    out_path = os.path.join(HERE, 'seeded', 'RECHECK.json')
    try:
        results = json.load(open(out_path))
    except Exception:
        results = {}
    for d in sorted(glob.glob(os.path.join(HERE, 'seeded', '*', ''))):
        name = os.path.basename(os.path.dirname(d))
        if a.only and a.only not in name:
            continue
        meta = json.load(open(os.path.join(d, 'meta.json')))
        props = meta['confirmation'].get('caught_by') or [meta['property']]
        root = tempfile.mkdtemp(prefix='seedre-')
        rec = {}
        t0 = time.time()
        try:
            shutil.copytree('/repo', root, dirs_exist_ok=True, ignore=shutil.ignore_patterns('.git', '__pycache__', '*.egg-info'))
            p = subprocess.run(['patch', '-p1', '-s', '-i', os.path.join(d, 'patch.diff')], cwd=root, capture_output=True, text=True)
            if p.returncode != 0:
                # the tree has moved on under the patch (a later fix: commit touched the same lines): merge it three-way
                # in a scratch git worktree (the patch names its base blobs) and take the merged files
                wt = tempfile.mkdtemp(prefix='seedre-wt-')
                os.rmdir(wt)
                subprocess.run(['git', '-C', '/repo', 'worktree', 'add', '-q', '--detach', wt, 'HEAD'], capture_output=True)
                q = subprocess.run(['git', '-C', wt, 'apply', '--3way', os.path.join(d, 'patch.diff')], capture_output=True, text=True)
                unmerged = subprocess.run(['git', '-C', wt, 'diff', '--name-only', '--diff-filter=U'],
                                          capture_output=True, text=True).stdout.split()
                # conflicts that consist of import lines only (a repair and the seeded change both touched the imports) are
                # resolved by taking the union of the imported names
                for f in list(unmerged):
                    if resolve_import_conflicts(os.path.join(wt, f)):
                        unmerged.remove(f)
                merged = not unmerged and os.path.exists(os.path.join(wt, 'aiuti'))
                if merged:
                    shutil.rmtree(os.path.join(root, 'aiuti'))
                    shutil.copytree(os.path.join(wt, 'aiuti'), os.path.join(root, 'aiuti'), ignore=shutil.ignore_patterns('__pycache__'))
                subprocess.run(['git', '-C', '/repo', 'worktree', 'remove', '--force', wt], capture_output=True)
                subprocess.run(['git', '-C', '/repo', 'worktree', 'prune'], capture_output=True)
                if not merged:
                    rec = {'status': 'patch no longer applies', 'detail': (p.stdout + p.stderr + q.stderr)[-300:]}
                else:
                    rec['merged_three_way'] = True
            if 'status' not in rec:
                rec['checks'] = {}
                for pid in props:
                    env = dict(os.environ, VERIF_REPO=root, VERIF_SEED=a.seed, VERIF_STOP_ON_VIOLATION='1',
                               VERIF_EVIDENCE_DIR=os.path.join(root, '_evidence'), VERIF_REPLAY_DIR=os.path.join(root, '_replays'))
                    q = subprocess.run([os.path.join(HERE, 'check'), pid, '--tier', 'quick'], env=env, capture_output=True, text=True, timeout=1200)
                    rec['checks'][pid] = {'rc': q.returncode,
                                          'signatures': [l.strip().split(':')[1] for l in q.stdout.splitlines() if l.startswith('  C')][:4]}
                rec['status'] = 'caught' if any(c['rc'] == 1 for c in rec['checks'].values()) else 'NOT CAUGHT'
        finally:
            shutil.rmtree(root, ignore_errors=True)
        rec['seconds'] = round(time.time() - t0, 1)
        results[name] = rec
        print(f"{name:45s} {rec['status']:14s} {rec.get('checks', '')}", flush=True)
        json.dump(results, open(out_path, 'w'), indent=1, sort_keys=True)
    n = sum(1 for r in results.values() if r['status'] == 'caught')
    print(f'{n} caught / {len(results)}')


main()
