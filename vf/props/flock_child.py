"""Free-running contender for C02 / C13 (Engines B and C): real threading, real flock.

argv: lockpath markerdir nthreads rounds seed inject(0/1) [forever|- [modes [inject_p [fork_p]]]]
Prints one JSON line: entries, refused, overlaps, errors, yields.
"""
import json
import os
import random
import sys
import threading
import time


def main():
    lock_path, mdir, nthr, rounds, seed, inject = sys.argv[1:7]
    nthr, rounds, seed, inject = int(nthr), int(rounds), int(seed), int(inject)
    forever = len(sys.argv) > 7 and sys.argv[7] == 'forever'
    modes = sys.argv[8].split(',') if len(sys.argv) > 8 else ['with', 'acq', 'nb', 'timed', 'ctx']
    inject_p = float(sys.argv[9]) if len(sys.argv) > 9 else 0.08
    fork_p = float(sys.argv[10]) if len(sys.argv) > 10 else 0.0     # chance that a holder forks a helper inside the section
    import logging
    logging.disable(logging.CRITICAL)
    import aiuti.filelock as F
    marker = os.path.join(mdir, 'inside.marker')
    owners = os.path.join(mdir, 'owners.log')
    progress = os.path.join(mdir, f'progress.{os.getpid()}')
    yields = [0]
    if inject:
        from vf import simrt
        mon = sys.monitoring
        mon.use_tool_id(4, 'verif-inject')
        irng = random.Random(seed ^ 0x5eed)
        ilock = threading.Lock()

        def cb(code, line):
            with ilock:
                x = irng.random()
            if x < inject_p:
                yields[0] += 1
                time.sleep(0 if x < inject_p * 0.6 else 0.0002 + x * 0.01)

        mon.register_callback(4, mon.events.LINE, cb)
        for co in simrt.module_code_objects(F):
            mon.set_local_events(4, co, mon.events.LINE)
    objs = [F.FileLock(lock_path, timeout=(0.02 if seed & 2 else -1), reentrant=bool(seed & 1))
            for _ in range(2)]
    res = {'entries': 0, 'refused': 0, 'overlaps': [], 'errors': [], 'yields': 0, 'forks': 0}
    mu = threading.Lock()
    stop = threading.Event()
    if forever:
        import signal
        signal.signal(signal.SIGTERM, lambda *a: stop.set())

    def section(rng, who):
        try:
            fd = os.open(marker, os.O_CREAT | os.O_EXCL | os.O_WRONLY)
        except FileExistsError:
            try:
                other = open(marker).read()
            except OSError:
                other = '?'
            with mu:
                res['overlaps'].append({'entering': who, 'inside': other})
            return
        try:
            os.write(fd, who.encode())
            os.close(fd)
            fd2 = os.open(owners, os.O_CREAT | os.O_APPEND | os.O_WRONLY)
            os.write(fd2, (who + '\n').encode())
            os.close(fd2)
            with mu:
                res['entries'] += 1
                n = res['entries']
            if forever:
                tmpname = f'{progress}.{who}.tmp'
                with open(tmpname, 'w') as f:
                    f.write(str(n))
                os.replace(tmpname, progress)      # readers never see a truncated file
            if fork_p and rng.random() < fork_p:
                # the holder starts a helper process from inside the section (the child inherits the descriptor,
                # touches nothing and leaves at once); the lock must stay the parent's until the parent releases it
                pid = os.fork()
                if pid == 0:
                    os._exit(0)
                os.waitpid(pid, 0)
                with mu:
                    res['forks'] += 1
                time.sleep(0.004)
            time.sleep(rng.choice([0, 0, 0.0005, 0.002]))
        finally:
            os.unlink(marker)

    def worker(i):
        rng = random.Random(seed * 1000 + i)
        who = f'{os.getpid()}.{i}'
        k = 0
        while (forever and not stop.is_set()) or (not forever and k < rounds):
            k += 1
            o = objs[rng.randrange(2)]
            mode = rng.choice(modes)
            try:
                if mode == 'with':
                    try:
                        with o:
                            section(rng, who)
                    except TimeoutError:
                        with mu:
                            res['refused'] += 1
                elif mode == 'ctx':
                    try:
                        with o.acquire_ctx(timeout=0.05):
                            section(rng, who)
                    except TimeoutError:
                        with mu:
                            res['refused'] += 1
                else:
                    got = (o.acquire() if mode == 'acq' else
                           o.acquire(blocking=False) if mode == 'nb' else
                           o.acquire(timeout=0) if mode == 'timed0' else o.acquire(timeout=0.05))
                    if got is True:
                        try:
                            section(rng, who)
                        finally:
                            o.release()
                    else:
                        with mu:
                            res['refused'] += 1
            except Exception as e:     # noqa - reported to the parent
                with mu:
                    res['errors'].append(repr(e))
                return

    ts = [threading.Thread(target=worker, args=(i,), daemon=True) for i in range(nthr)]
    for t in ts:
        t.start()
    if forever:
        while not stop.is_set():
            time.sleep(0.02)
    for t in ts:
        t.join(10)
    res['yields'] = yields[0]
    print(json.dumps(res))


if __name__ == '__main__':
    main()
