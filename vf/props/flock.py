"""C02 - FileLock mutual exclusion.

Engine A: 2-4 sim threads over 1-2 FileLock objects on one path, line-level
interleavings, occupancy counter in a harness-owned critical section (kernel
flock is real, only its *blocking* is delegated to the scheduler).
Engine B/C: free-running OS processes x threads with an O_EXCL marker file as
overlap detector (children are ``vf.props.flock_child``).
"""
from __future__ import annotations

import json
import os
import random
import subprocess
import sys
import tempfile

from vf import simrt
from vf.core import Check, CaseResult, HarnessError, U, PY, VERIF, REPO

# 'abandon': a private FileLock object on the same path is acquired, used and then simply dropped
# (garbage collected while held) instead of being released
MODES = ['with', 'acq', 'nb', 'timed', 'timed0', 'ctx', 'ctxnb', 'abandon', 'force', 'stale', 'nestraise']
WEIGHTS = [4, 4, 4, 4, 2, 3, 2, 3, 2, 3, 2]


def gen(rng):
    nthr = rng.choice([2, 2, 3, 3, 4])
    nobj = rng.choice([1, 2, 2])
    reentrant = rng.random() < 0.5
    threads = []
    for _ in range(nthr):
        rounds = []
        for _ in range(rng.choice([1, 2, 2, 3])):
            rounds.append({'obj': rng.randrange(nobj), 'mode': rng.choices(MODES, WEIGHTS)[0],
                           'dwell': rng.choice([0, 0, 0.03, 0.06, 0.2, 0.1, 0.5]),
                           'nest': reentrant and rng.random() < 0.4,
                           'tau': rng.choice([0.1, 0.1, 0.04, 0.3])})
        threads.append({'start': rng.choice([0, 0, 0, 0.01, 0.05]), 'rounds': rounds})
    deft = rng.choice([-1, -1, -1, 0.04, 0.1])
    return {'nobj': nobj, 'reentrant': reentrant, 'threads': threads, 'default_timeout': deft}


class AcquireScopedFaults(simrt.FaultPlan):
    """FaultPlan whose indices count only the OS calls made while the calling thread is inside BaseFileLock.acquire()"""

    def hit(self, kind):
        import sys
        f = sys._getframe(1)
        inside = False
        while f is not None:
            if f.f_code.co_name == 'acquire' and f.f_code.co_filename.endswith('filelock.py'):
                inside = True
                break
            f = f.f_back
        if not inside:
            return False
        return super().hit(kind)


class FlockHarness:
    def __init__(self, F, path):
        self.F = F
        self.path = path

    def run(self, scen, strategy, probes=False, delays=None, faults=None):
        F = self.F
        path = self.path

        def main(s):
            log = s.log

            def emit(*ev):
                if not s.dead:
                    log.append(ev + (s.now,))

            objs = [F.FileLock(path, timeout=scen['default_timeout'], reentrant=scen['reentrant'])
                    for _ in range(scen['nobj'])]
            occ = [0]
            plan = None
            if faults:
                # OSError injected at the n-th open / flock / close that happens *inside an acquire()* (any thread's)
                plan = AcquireScopedFaults(faults)
                simrt.OSS[0].plan = plan
                s.fault_plan = plan

            def section(name, o, rd):
                occ[0] += 1
                emit('enter', name, rd['obj'], occ[0])
                s.yield_point('cs')
                if rd['dwell']:
                    s.sleep(rd['dwell'])
                if rd['nest']:
                    got = o.acquire(blocking=False)
                    emit('nested', name, got)
                    if got:
                        s.yield_point('cs-nested')
                        o.release()
                s.yield_point('cs2')
                emit('exit', name, rd['obj'], occ[0])
                occ[0] -= 1

            def worker(i, spec):
                name = f'W{i}'

                def body():
                    if spec['start']:
                        s.sleep(spec['start'])
                    for rd in spec['rounds']:
                        try:
                            o = objs[rd['obj']]
                            mode = rd['mode']
                            emit('try', name, rd['obj'], mode)
                            if mode == 'stale':
                                # a private object whose quick attempt fails under contention lives on for a while and
                                # is dropped later, perhaps while somebody else holds the lock
                                tmp = F.FileLock(path, reentrant=scen['reentrant'])
                                emit('t_call', name, 'nb', 0)
                                got = tmp.acquire(blocking=False) if rd['nest'] or not scen['reentrant'] else tmp.acquire(timeout=0)
                                emit('t_ret', name, got)
                                if got is True:
                                    section(name, tmp, dict(rd, nest=False))
                                    tmp.release()
                                else:
                                    emit('refused', name, rd['obj'], mode, got)
                                    s.sleep(rd['tau'])
                                s.yield_point('drop')
                                del tmp
                                emit('dropped', name, got)
                                continue
                            if mode == 'force':
                                got = o.acquire()
                                if got is True:
                                    if rd['nest']:
                                        emit('nested', name, o.acquire())
                                    section(name, o, dict(rd, nest=False))
                                    o.release(force=True)       # gives up every level at once
                                else:
                                    emit('refused', name, rd['obj'], mode, got)
                                continue
                            if mode == 'abandon':
                                tmp = F.FileLock(path, reentrant=scen['reentrant'])
                                emit('t_call', name, 'timed', rd['tau'])
                                got = tmp.acquire(timeout=rd['tau'])
                                emit('t_ret', name, got)
                                if got is True:
                                    section(name, tmp, dict(rd, nest=False))
                                else:
                                    emit('refused', name, rd['obj'], mode, got)
                                emit('abandoned', name, got)
                                del tmp                # __del__ gives the lock back
                                continue
                            if mode in ('ctx', 'ctxnb'):
                                emit('t_call', name, 'timed' if mode == 'ctx' else 'nb', rd['tau'] if mode == 'ctx' else 0)
                                try:
                                    with (o.acquire_ctx(timeout=rd['tau']) if mode == 'ctx'
                                          else o.acquire_ctx(blocking=False)):
                                        emit('t_ret', name, True)
                                        section(name, o, rd)
                                except TimeoutError:
                                    emit('t_ret', name, False)
                                    emit('refused', name, rd['obj'], mode)
                                continue
                            if mode == 'nestraise' and not scen['reentrant']:
                                mode = 'with'
                            if mode == 'nestraise':
                                # a nested block of the same reentrant lock is left by an exception that the outer block handles:
                                # the outer level is still held afterwards
                                try:
                                    with o:
                                        try:
                                            if rd['nest']:
                                                with o:
                                                    raise HarnessError('inner block fails')
                                            else:
                                                with o.acquire_ctx(timeout=rd['tau']):
                                                    raise HarnessError('inner block fails')
                                        except HarnessError:
                                            emit('inner_block_failed', name)
                                        section(name, o, dict(rd, nest=False))
                                except TimeoutError:
                                    emit('refused', name, rd['obj'], mode)
                                continue
                            if mode == 'with':
                                try:
                                    with o:
                                        section(name, o, rd)
                                except TimeoutError:      # only possible with a finite default timeout
                                    emit('refused', name, rd['obj'], mode)
                                continue
                            if mode == 'acq':
                                got = o.acquire()
                            elif mode == 'nb':
                                emit('t_call', name, 'nb', 0)
                                got = o.acquire(blocking=False)
                                emit('t_ret', name, got)
                            elif mode == 'timed':
                                emit('t_call', name, 'timed', rd['tau'])
                                got = o.acquire(timeout=rd['tau'])
                                emit('t_ret', name, got)
                            else:
                                emit('t_call', name, 'timed', 0)
                                got = o.acquire(timeout=0)
                                emit('t_ret', name, got)
                            if got is True:
                                section(name, o, rd)
                                o.release()
                            else:
                                emit('refused', name, rd['obj'], mode, got)
                        except OSError as e:
                            # (only with injected faults: the acquire of this round failed underneath; the thread holds nothing)
                            if plan is None or not plan.fired:
                                raise
                            emit('acquire_oserror', name, rd['obj'], rd['mode'], repr(e)[:60])
                return body

            ths = [s.spawn(worker(i, spec), f'W{i}') for i, spec in enumerate(scen['threads'])]
            if probes:
                s.block(lambda: all(t.st == simrt.DONE for t in ths), None, 'main-join')
                if plan is not None:
                    emit('faults_fired', list(plan.fired))
                    plan.faults = set()        # the residue probes run fault-free
                emit('all_released', [bool(o.is_locked) for o in objs], len(simrt.OSS[0].open_fds))

                def prober():
                    for i, o in enumerate(objs):
                        g = o.acquire(blocking=False)
                        emit('probe', i, g, bool(o.is_locked))
                        if g is True:
                            o.release()
                    fresh = F.FileLock(path)
                    g = fresh.acquire(blocking=False)
                    emit('probe', 'fresh', g, bool(fresh.is_locked))
                    if g is True:
                        fresh.release()
                    emit('final_fds', len(simrt.OSS[0].open_fds))
                p = s.spawn(prober, 'P')
                s.block(lambda: p.st == simrt.DONE, None, 'main-join2')

        def pre(s):
            if delays:
                s.line_delays = [dict(d) for d in delays]

        r = simrt.execute(main, strategy, max_steps=100000, watchdog=60.0, pre=pre)
        return r


class C02(Check):
    pid = 'C02'
    anchors = ('BaseFileLock', 'UnixFileLock')
    budget = {'quick': 45.0, 'thorough': 700.0}
    assumptions = [
        'Engine A: sim Lock/RLock/time replace threading/time inside aiuti.filelock; fcntl.flock is the real '
        'kernel call with LOCK_NB, blocking is delegated to the scheduler',
        'Engine B/C: free-running processes and threads on this kernel and local filesystem; overlap is '
        'detected with an O_EXCL marker file, so only overlaps that last long enough for the other holder '
        'to reach os.open are seen (holders dwell inside the section)',
        'in-contract use only: every thread releases what it acquired',
    ]
    rule = ('Engine A cases = random scenarios (2-4 threads, 1-2 FileLock objects on one path, 1-3 rounds per '
            'thread through acquire()/non-blocking/timed/acquire_ctx/with, a private object dropped while held (abandon), '
            'forced release (also of a nested hold), a private object whose quick attempt fails and that is dropped later '
            '(stale), a nested block of a reentrant lock left by an exception that the outer block handles; reentrant with nested re-acquire or not) under random/pct/stall schedules; non-trivial = at least two contenders attempted to acquire '
            'while one held (someone blocked, timed out or was refused) ; process cases = N processes x T '
            'threads x R rounds with line-level sleep injection, holders forking a helper process inside the section in two '
            'thirds of the cases (5-10 % of their sections); distinct = distinct (case, baton-move '
            'sequence) resp. distinct process cases')

    SIZES = {'quick': {'sim': 50000, 'stall': 4000, 'procs': 24},
             'thorough': {'sim': 900000, 'stall': 80000, 'procs': 300}}

    def setup(self):
        import aiuti.filelock as F
        simrt.prepare([F])
        self.F = F
        self.dir = tempfile.mkdtemp(prefix='c02-')
        self.h = FlockHarness(F, os.path.join(self.dir, 'sim.lock'))

    def cases(self, tier, seed):
        sz = self.SIZES[tier]
        order = ['sim'] * sz['sim'] + ['stall'] * sz['stall']
        rng = random.Random(seed * 104729 + 7)
        rng.shuffle(order)
        # process cases first so that they are never skipped by the time budget
        i = 0
        for _ in range(sz['procs']):
            yield {'fam': 'procs', 'seed': (seed << 32) + i}
            i += 1
        for fam in order:
            yield {'fam': fam, 'seed': (seed << 32) + i}
            i += 1

    def run_case(self, case):
        if case['fam'] == 'procs':
            return self.run_procs(case)
        rng = random.Random(case['seed'])
        scen = gen(rng)
        if case['fam'] == 'stall':
            strat = simrt.Strategy('stall', p=rng.choice([0.0, 0.15]),
                                   thread=f'W{rng.randrange(len(scen["threads"]))}',
                                   k=rng.randrange(1, 120), seed=rng.randrange(1 << 30))
        elif rng.random() < 0.75:
            strat = simrt.Strategy('random', rng.choice([0.05, 0.2, 0.5]), seed=rng.randrange(1 << 30))
        else:
            strat = simrt.Strategy('pct', d=3, span=rng.choice([100, 300, 800]), seed=rng.randrange(1 << 30))
        r = self.h.run(scen, strat)
        res = CaseResult()
        res.sig = r.signature
        res.cov = {k: c for k, c in r.sched.line_cov.items() if k[0].startswith(self.anchors)}
        res.switch_cov = {k for k in r.sched.switch_lines if k[0].startswith(self.anchors)}
        st = res.stats
        if r.verdict == 'watchdog' or not r.clean:
            res.dirty = True
        if r.verdict == 'watchdog':
            res.inconclusive = 'wall-clock watchdog'
            return res
        if r.thread_errors:
            res.inconclusive = 'thread error: ' + repr(r.thread_errors[:2])
            res.sample = {'scenario': scen, 'log': r.log[-30:]}
            return res
        st['sim_executions'] += 1
        st[f'strategy_{strat.kind}'] += 1
        inside = {}
        contended = False
        last_holder = None
        for e in r.log:
            if e[0] == 'enter':
                if inside:
                    res.violate('C02:overlap', 'two holders inside the critical section',
                                holders=list(inside), entering=e[1])
                inside[e[1]] = e[2]
                st['entries'] += 1
                if last_holder is not None and last_holder != (e[1], e[2]):
                    if last_holder[0] != e[1]:
                        st['handover_between_threads'] += 1
                    if last_holder[1] != e[2]:
                        st['handover_between_objects'] += 1
                last_holder = (e[1], e[2])
            elif e[0] == 'exit':
                inside.pop(e[1], None)
            elif e[0] == 'refused':
                st['refused_or_timed_out'] += 1
                contended = True
            elif e[0] == 'try' and inside and e[1] not in inside:
                contended = True
                st['attempt_while_held'] += 1
            elif e[0] == 'nested':
                st['nested_reacquire'] += 1
                if e[2] is not True:
                    res.violate('C02:nested-refused', 'holder of a reentrant lock could not re-acquire it')
        if r.verdict in ('deadlock', 'stepbound', 'timebound'):
            # liveness is C12's subject; here it only means the execution says nothing more
            st['sim_' + r.verdict] += 1
            res.inconclusive = f'{r.verdict}: {r.blocked}'
            res.sample = {'scenario': scen, 'log': r.log[-30:]}
        res.nontrivial = contended
        if contended:
            st['nontrivial'] += 1
        if res.violations or (res.nontrivial and not res.inconclusive):
            res.sample = {'scenario': scen, 'strategy': strat.describe(), 'switches': r.sched.switches[:12],
                          'log': r.log[:60]}
        return res

    def run_procs(self, case):
        rng = random.Random(case['seed'])
        res = CaseResult()
        nproc = rng.choice([2, 3, 4, 8, 16])
        nthr = rng.choice([1, 1, 2, 3])
        rounds = rng.choice([20, 40, 60]) if nproc <= 4 else rng.choice([8, 15])
        d = tempfile.mkdtemp(prefix='c02p-', dir=self.dir)
        lock = os.path.join(d, 'x.lock')
        env = dict(os.environ)
        env['PYTHONPATH'] = os.pathsep.join([REPO, VERIF])
        procs = []
        for i in range(nproc):
            cmd = [PY, '-W', 'ignore', '-m', 'vf.props.flock_child', lock, d, str(nthr), str(rounds),
                   str(case['seed'] * 31 + i), str(rng.choice([0, 1, 1])), '-', 'with,acq,nb,timed,ctx', '0.08',
                   str(rng.choice([0, 0.05, 0.1]))]
            procs.append(subprocess.Popen(cmd, env=env, stdout=subprocess.PIPE, stderr=subprocess.PIPE,
                                          cwd=VERIF))
        outs = []
        try:
            for p in procs:
                try:
                    o, e = p.communicate(timeout=240)
                except subprocess.TimeoutExpired:
                    for q in procs:
                        q.kill()
                    res.inconclusive = 'process workload watchdog'
                    return res
                if p.returncode != 0:
                    res.inconclusive = f'child failed rc={p.returncode}: {e.decode()[-400:]}'
                    return res
                outs.append(json.loads(o.decode().strip().splitlines()[-1]))
        finally:
            for q in procs:
                if q.poll() is None:
                    q.kill()
        st = res.stats
        st['process_cases'] += 1
        st['processes_run'] += nproc
        entries = sum(o['entries'] for o in outs)
        refused = sum(o['refused'] for o in outs)
        st['process_entries'] += entries
        st['process_refusals'] += refused
        st['process_injected_yields'] += sum(o['yields'] for o in outs)
        st['holder_forked_helper_inside_section'] += sum(o.get('forks', 0) for o in outs)
        overlaps = [x for o in outs for x in o['overlaps']]
        errors = [x for o in outs for x in o['errors']]
        handovers = 0
        try:
            with open(os.path.join(d, 'owners.log')) as f:
                owners = [l.split()[0] for l in f if l.strip()]
            handovers = sum(1 for a, b in zip(owners, owners[1:]) if a != b)
        except FileNotFoundError:
            owners = []
        st['handover_between_processes'] += handovers
        if overlaps:
            res.violate('C02:overlap-processes', 'marker file already present on entry: two holders at once',
                        overlaps=overlaps[:5], nproc=nproc, nthr=nthr)
        if errors:
            res.inconclusive = 'child errors: ' + repr(errors[:3])
        res.nontrivial = handovers > 0 and entries >= 2
        if res.nontrivial:
            st['nontrivial'] += 1
        res.sig = f'procs:{nproc}x{nthr}x{rounds}:{handovers}'
        res.sample = {'processes': nproc, 'threads_each': nthr, 'rounds': rounds, 'entries': entries,
                      'refused': refused, 'handovers_between_processes': handovers,
                      'first_owners': owners[:12]}
        import shutil
        shutil.rmtree(d, ignore_errors=True)
        return res

    def floors(self, tier):
        q = tier == 'quick'
        return {'nontrivial': 2000 if q else 40000, 'handover_between_threads': 1000 if q else 20000,
                'handover_between_objects': 500 if q else 10000,
                'handover_between_processes': 200 if q else 4000,
                'refused_or_timed_out': 500 if q else 10000, 'nested_reacquire': 200 if q else 4000,
                'holder_forked_helper_inside_section': 30 if q else 400}


def get_check(pid):
    return C02()
